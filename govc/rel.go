package main

// Relational obligations (C17): for every non-text child of the root node, enumerated from the
// concretely executed package initialiser, the detector is executed twice over one shared byte
// memory with lengths len1 <= len2 (so raw1 is a prefix of raw2 by construction) and arbitrary
// limits; the obligation is D(raw1, l1) ==> D(raw2, l2), and where that fails,
// D(raw1, l1) ==> OR over all non-text root detectors D'(raw2, l2).

import (
	"fmt"
	"go/types"
	"strings"

	"golang.org/x/tools/go/ssa"
)

type rootChild struct {
	mime string
	det  VFunc
	name string
}

// treeExec executes all package initialisers concretely (including the root package) and
// returns the executor, the state and the children of the root node.
func (p *Program) treeExec() (*Exec, *State, *frame, []rootChild, error) {
	ex := p.newExec(ExecMode{})
	ex.relMode = true
	ex.relQuant = true
	st := newLemmaState()
	root := p.byName["mimetype"]
	if root == nil {
		return nil, nil, nil, nil, fmt.Errorf("no root package")
	}
	ex.includeRootInit = true
	ex.runInits(st, root.Func("init"))
	// run the root package initialiser itself
	initFn := root.Func("init")
	ex.initMode = true
	nf := ex.newFrame(initFn, nil)
	nf.inlined = true
	var rets []retPath
	nf.rets = &rets
	pre := st.clone() // state of the detector packages only: what the detectors themselves can see
	work := st.clone()
	nf.entry = work
	ex.execBlock(nf, work, initFn.Blocks[0], nil)
	ex.initMode = false
	if len(rets) != 1 || ex.aborted != "" {
		return nil, nil, nil, nil, fmt.Errorf("root init not executed concretely: %d paths %s", len(rets), ex.aborted)
	}
	st = rets[0].st
	st.defers = nil
	ex.obs, ex.covers, ex.paths = nil, nil, 0
	g, _ := root.Members["root"].(*ssa.Global)
	if g == nil {
		return nil, nil, nil, nil, fmt.Errorf("no global root")
	}
	rv, ok := p.globalLoad(ex, st, g).(VRef)
	if !ok {
		return nil, nil, nil, nil, fmt.Errorf("root is not a node")
	}
	f := p.lemmaFrame(ex, "mimetype")
	u := rv.St.Underlying().(*types.Struct)
	fieldIdx := func(name string) int {
		for i := 0; i < u.NumFields(); i++ {
			if u.Field(i).Name() == name {
				return i
			}
		}
		return -1
	}
	ch, ok := ex.heapLoad(st, rv.St, fieldIdx("children"), rv.T).(VSlice)
	if !ok {
		return nil, nil, nil, nil, fmt.Errorf("root.children unreadable")
	}
	n, isn := isNum(ch.Len)
	if !isn {
		return nil, nil, nil, nil, fmt.Errorf("root.children has no concrete length")
	}
	var out []rootChild
	seen := map[string]int{}
	for i := int64(0); i < n.Int64(); i++ {
		c, ok := f.readElem(st, ch, num(i)).(VRef)
		if !ok {
			return nil, nil, nil, nil, fmt.Errorf("child %d unreadable", i)
		}
		det, _ := ex.heapLoad(st, rv.St, fieldIdx("detector"), c.T).(VFunc)
		ms, _ := ex.heapLoad(st, rv.St, fieldIdx("mime"), c.T).(VSlice)
		env := f.baseEnv(st, st)
		mb, _ := env.concreteBytes(ms)
		name := string(mb)
		seen[name]++
		if seen[name] > 1 {
			name = fmt.Sprintf("%s#%d", name, seen[name])
		}
		out = append(out, rootChild{mime: string(mb), det: det, name: name})
	}
	return ex, pre, f, out, nil
}

func (p *Program) relObligations() ([]*Obligation, []string, error) {
	ex, st0, f, children, err := p.treeExec()
	if err != nil {
		return nil, nil, err
	}
	var notes []string
	// the text node is the last child and is the only text detector at root level
	var nonText []rootChild
	for _, c := range children {
		if c.mime == "text/plain" {
			continue
		}
		if c.det.Fn == nil {
			notes = append(notes, "detector of "+c.name+" is not a known function")
			continue
		}
		nonText = append(nonText, c)
	}
	var obs []*Obligation
	for _, c := range nonText {
		st := st0.clone()
		// one memory, two lengths
		raw1 := ex.freshSlice(st, "raw", byteType, false, true)
		raw1.R.input = true
		len2 := ex.decls.fresh("raw_len2", SInt)
		cap2 := ex.decls.fresh("raw_cap2", SInt)
		st.assume(tAnd(tLe(raw1.Len, len2), tLe(len2, cap2), tLe(cap2, two48)))
		raw2 := VSlice{R: raw1.R, Elem: byteType, Off: raw1.Off, Len: len2, Cap: cap2}
		l1 := ex.freshVal(st, "limit1", types.Typ[types.Uint32], true)
		l2 := ex.freshVal(st, "limit2", types.Typ[types.Uint32], true)
		r1 := f.callDetector(st, c.det, raw1, l1)
		r2 := f.callDetector(st, c.det, raw2, l2)
		if ex.aborted != "" {
			notes = append(notes, c.name+": "+ex.aborted)
			ex.aborted = ""
			o := &Obligation{Fn: "mimetype.root", Kind: "C17.mono[" + c.name + "]", Name: "mimetype.root#C17.mono[" + c.name + "]", Goal: "false", Decls: ex.decls,
				Desc: "detector could not be executed relationally", Result: &SolverResult{Status: "unknown", All: map[string]string{}}}
			obs = append(obs, o)
			continue
		}
		o := &Obligation{Fn: "mimetype.root", Kind: "C17.mono[" + c.name + "]", Name: "mimetype.root#C17.mono[" + c.name + "]",
			Goal: tImp(r1, r2), Decls: ex.decls, Facts: st.facts[:len(st.facts):len(st.facts)],
			Desc: fmt.Sprintf("detector of %s (%s) accepts every extension of an accepted header", c.name, shortFn(p, c.det.Fn))}
		cc := c
		o.replayFn = p.relReplay(ex, st, c, raw1, len2, l1, l2)
		o.relAlt = func() *Obligation {
			// fall-back: some non-text root detector accepts the longer header. First the
			// detectors that this one consults itself (hand-over), then all of them.
			st2 := st.clone()
			var alts []T
			related := map[T]bool{cc.det.ID: true}
			for _, b := range cc.det.Fn.Blocks {
				for _, ins := range b.Instrs {
					if u, ok := ins.(*ssa.UnOp); ok {
						if g, ok := u.X.(*ssa.Global); ok {
							if fv, ok := p.globalLoad(ex, st2, g).(VFunc); ok {
								related[fv.ID] = true
							}
						}
					}
				}
			}
			if !o.relAltFull {
				o.relAltFull = true
				for _, d := range nonText {
					if related[d.det.ID] {
						alts = append(alts, f.callDetector(st2, d.det, raw2, l2))
					}
				}
				return &Obligation{Fn: o.Fn, Kind: o.Kind, Name: o.Name, Goal: tImp(r1, tOr(alts...)), Decls: ex.decls,
					Facts: st2.facts[:len(st2.facts):len(st2.facts)], Desc: o.Desc + " (or a non-text root detector it hands over to does)", relAlt: o.relAlt, relAltFull: true, replayFn: o.replayFn}
			}
			for _, d := range nonText {
				alts = append(alts, f.callDetector(st2, d.det, raw2, l2))
			}
			return &Obligation{Fn: o.Fn, Kind: o.Kind, Name: o.Name, Goal: tImp(r1, tOr(alts...)), Decls: ex.decls,
				Facts: st2.facts[:len(st2.facts):len(st2.facts)], Desc: o.Desc + " (or another non-text root detector does)", replayFn: o.replayFn}
		}
		obs = append(obs, o)
	}
	return obs, notes, nil
}

func shortFn(p *Program, fn *ssa.Function) string {
	return strings.TrimPrefix(p.keyOf(fn), "magic.")
}

// callDetector executes a detector value on (raw, limit) in the current state and returns the
// boolean result term.
func (f *frame) callDetector(st *State, det VFunc, raw VSlice, limit Val) T {
	r := f.inlineCall(st, nil, det.Fn, []Val{raw, limit}, det.Free)
	if b, ok := r.(VBool); ok {
		return b.T
	}
	return "false"
}

// relReplay builds the replay of a failed monotonicity obligation: the model's bytes, the two
// lengths and the two limits are read back and the real detector is called on both headers.
func (p *Program) relReplay(ex *Exec, st *State, c rootChild, raw VSlice, len2 T, l1, l2 Val) func(o *Obligation) *ReplayResult {
	return func(o *Obligation) *ReplayResult {
		rr := &ReplayResult{Function: "magic detector of " + c.name, Inputs: map[string]string{}}
		// name under which the detector can be called from package magic
		name := ""
		if c.det.Fn.Parent() == nil && c.det.Fn.Signature.Recv() == nil {
			name = c.det.Fn.Name()
		} else {
			mp := p.byName["magic"]
			for mn, m := range mp.Members {
				if g, ok := m.(*ssa.Global); ok {
					if fv, ok := p.globalLoad(ex, st, g).(VFunc); ok && fv.ID == c.det.ID {
						name = mn
					}
				}
			}
		}
		if name == "" {
			rr.Reason = "detector value has no name in package magic"
			return rr
		}
		cz := newConcretizer(o)
		okModel := false
		for _, k := range []int64{64, 600, 5000} {
			extra := []string{tLe(len2, num(k))}
			if _, status := cz.run(extra, nil); status == "sat" {
				cz.pins = append(cz.pins, extra...)
				okModel = true
				break
			}
		}
		if !okModel {
			rr.Reason = "no model with a header of at most 5000 bytes (the counterexample needs a larger input); not replayed"
			return rr
		}
		vals, ok := cz.scalars([]T{raw.Len, len2, l1.(VInt).T, l2.(VInt).T})
		if !ok {
			rr.Reason = "model read-back failed"
			return rr
		}
		var n1, n2 int64
		fmt.Sscan(vals[0], &n1)
		fmt.Sscan(vals[1], &n2)
		terms := make([]T, n2)
		for i := range terms {
			terms[i] = tSel(st.mem[raw.R][0], tIdx(raw.Off, num(int64(i))))
		}
		var bs []byte
		if n2 > 0 {
			bv, ok := cz.scalarsChunked(terms)
			if !ok {
				rr.Reason = "model read-back of bytes failed"
				return rr
			}
			for _, s := range bv {
				var x int64
				fmt.Sscan(s, &x)
				bs = append(bs, byte(x))
			}
		}
		rr.Inputs["raw"] = fmt.Sprintf("%q", string(bs))
		rr.Inputs["len1"], rr.Inputs["len2"], rr.Inputs["limit1"], rr.Inputs["limit2"] = vals[0], vals[1], vals[2], vals[3]
		src := fmt.Sprintf(`package magic

import (
	encjson "encoding/json"
	"os"
	"testing"
)

func TestGovcReplay(t *testing.T) {
	raw := []byte(%q)
	d1 := %s(raw[:%d], uint32(%s))
	d2 := %s(raw[:%d], uint32(%s))
	out, _ := encjson.Marshal(map[string]any{"panic": "", "results": []any{d1, d2}, "pre": []any{}, "post": []any{}})
	os.WriteFile(os.Getenv("GOVC_REPLAY_OUT"), out, 0o644)
}
`, string(bs), name, n1, vals[2], name, n2, vals[3])
		rr.TestFile = src
		obs, out, cmd, err := runHarness(p, p.byName["magic"], src)
		rr.Cmd, rr.Output = cmd, truncate(out, 2000)
		if err != nil {
			rr.Reason = "replay run failed: " + err.Error()
			return rr
		}
		rr.Observed = obs
		var od struct {
			Results []bool `json:"results"`
		}
		encodingJSONUnmarshal(obs, &od)
		if len(od.Results) == 2 && od.Results[0] && !od.Results[1] {
			rr.Reproduced = true
			rr.Reason = fmt.Sprintf("real detector %s accepts the first %d bytes and rejects the first %d bytes of the same input", name, n1, n2)
		} else {
			rr.Reason = "real detector did not behave as in the model"
		}
		return rr
	}
}
