package main

// Forward symbolic execution of go/ssa (NaiveForm) with loop cutting,
// modular calls and obligation generation.

import (
	"time"
	"context"
	"fmt"
	"go/constant"
	"go/token"
	"go/types"
	"math/big"
	"sort"
	"strings"

	"golang.org/x/tools/go/ssa"
)

type bigInt = big.Int

var bigOne = big.NewInt(1)

// ---------------------------------------------------------------------------

type Obligation struct {
	Fn         string // function key
	Kind       string // index, slice, nil, ovf, post.<label>, inv.init[k].<label>, ...
	Name       string // Fn#Kind
	Pos        token.Position
	Facts      []T
	Goal       T
	Desc       string
	Decls      *Decls
	Entry      *EntrySnapshot
	PathID     int
	Result     *SolverResult
	Trivial    bool
	relAlt     func() *Obligation // weaker alternative tried when the obligation is not discharged
	replayFn func(o *Obligation) *ReplayResult // custom replay (relational obligations)
	autoVariant string // loop key when the variant of this decreases obligation was inferred
	prior      *priorNode // obligations asserted (and then assumed) earlier on the same path
	relAltFull bool
}

// priorNode: immutable list of the obligations raised so far on a path (shared between forks)
type priorNode struct {
	ob   *Obligation
	prev *priorNode
}

// EntrySnapshot records how the symbolic entry state of the function under
// verification maps to Go values, for model replay.
type EntrySnapshot struct {
	Fn     *ssa.Function
	Params []EntryParam
	Extra  map[string]string // named symbolic terms of interest (heap fields etc.)
	ex     *Exec
	st     *State
}
type EntryParam struct {
	Name string
	Typ  types.Type
	V    Val
	Mem  []T // memory comps for slices at entry
}

type State struct {
	cells  map[*Cell]Val
	regs   map[ssa.Value]Val
	mem    map[*Region][]T
	heap   map[string][]T // "pkg.Type.field" -> component arrays indexed by ref
	facts  []T
	defers []deferred
	// loop bookkeeping: variant values at the header of loops currently open
	variants map[*ssa.BasicBlock][]T
	iters    map[*ssa.BasicBlock]int
	ghost    map[string]Val      // ghost variables (lock state, ...)
	fresh    []T                 // refs allocated on this path
	frontier T                   // allocation frontier: objects that exist now have addresses 0 < r <= frontier
	lits     map[*Region][]int16 // known constant bytes of array/literal regions (-1 unknown)
	heads    map[int]*State      // state at the head of each open loop (by ordinal), for at(k, e)
	entries  map[string]*State   // state on first arrival at each loop (before havoc), for inferred invariants
	priors   *priorNode          // obligations asserted so far on this path
	depth    int
	dead     bool
}

type deferred struct {
	call *ssa.CallCommon
	fn   Val
	args []Val
}

func (s *State) clone() *State {
	n := &State{
		cells: make(map[*Cell]Val, len(s.cells)), regs: make(map[ssa.Value]Val, len(s.regs)),
		mem: make(map[*Region][]T, len(s.mem)), heap: make(map[string][]T, len(s.heap)),
		variants: make(map[*ssa.BasicBlock][]T, len(s.variants)),
		iters:    make(map[*ssa.BasicBlock]int, len(s.iters)),
		ghost:    make(map[string]Val, len(s.ghost)),
		lits:     make(map[*Region][]int16, len(s.lits)),
		depth:    s.depth,
		priors:   s.priors,
	}
	for k, v := range s.lits {
		n.lits[k] = v
	}
	if s.entries != nil {
		n.entries = make(map[string]*State, len(s.entries))
		for k, v := range s.entries {
			n.entries[k] = v
		}
	}
	if s.heads != nil {
		n.heads = make(map[int]*State, len(s.heads))
		for k, v := range s.heads {
			n.heads[k] = v
		}
	}
	for k, v := range s.cells {
		n.cells[k] = v
	}
	for k, v := range s.regs {
		n.regs[k] = v
	}
	for k, v := range s.mem {
		n.mem[k] = v
	}
	for k, v := range s.heap {
		n.heap[k] = v
	}
	for k, v := range s.variants {
		n.variants[k] = v
	}
	for k, v := range s.iters {
		n.iters[k] = v
	}
	for k, v := range s.ghost {
		n.ghost[k] = v
	}
	n.facts = append([]T(nil), s.facts...)
	n.defers = append([]deferred(nil), s.defers...)
	n.fresh = append([]T(nil), s.fresh...)
	n.frontier = s.frontier
	return n
}

func (s *State) assume(f T) {
	if f == "true" {
		return
	}
	if n := len(s.facts); n > 0 && s.facts[n-1] == f {
		return
	}
	if f == "false" {
		s.dead = true
	}
	s.facts = append(s.facts, f)
}

// ---------------------------------------------------------------------------

type loopInfo struct {
	header  *ssa.BasicBlock
	blocks  map[*ssa.BasicBlock]bool
	ordinal int
	isRange bool
	pos     token.Pos
}

type frame struct {
	fn      *ssa.Function
	ex      *Exec
	key     string
	con     *Contract
	loops   map[*ssa.BasicBlock]*loopInfo
	cellOf  map[*ssa.Alloc]*Cell // per activation
	params  []Val
	free    []Val
	entry   *State // snapshot of state at entry (for old())
	ordinal map[ssa.Instruction]int
	inlined bool
	caller  *frame
	rets    *[]retPath // for inlined calls: collected return states
	named   []*Cell    // named result cells
}

type retPath struct {
	st   *State
	vals []Val
}

type Exec struct {
	prog            *Program
	decls           *Decls
	obs             []*Obligation
	fnKey           string
	top             *frame
	paths           int
	maxPath         int
	regionN         int
	cellN           int
	notes           map[string]bool // out-of-subset notes, assumptions used
	assumed         map[string]bool // assumed contracts used
	mode            ExecMode
	snap            *EntrySnapshot
	covers          []*Obligation // reachability covers
	aborted         string
	inlineDepth     int
	rel             *relCtx
	inlinedFns      map[string]bool
	usedContracts   map[string]bool
	gcells          map[*ssa.Global]*Cell
	dynHeapSorts    map[string][]string
	initMode        bool
	killers         []*Obligation
	deadline        time.Time
	steps           int
	noInits         bool
	initRefs        int
	relMode         bool
	relQuant        bool
	includeRootInit bool
}

type ExecMode struct {
	Safety     bool // emit runtime-check obligations
	Functional bool // emit contract obligations (post, inv, decreases, call.pre)
	Overflow   bool
}

func (ex *Exec) note(s string) { ex.notes[s] = true }

func (ex *Exec) newRegion(name string, strict, fresh bool) *Region {
	ex.regionN++
	return &Region{id: ex.regionN, name: name, strict: strict, fresh: fresh}
}

func (ex *Exec) newCell(name string, t types.Type) *Cell {
	ex.cellN++
	return &Cell{id: ex.cellN, name: name, typ: t}
}

// freshMem declares fresh component arrays for a region holding elements of type elem.
func (ex *Exec) freshMem(hint string, elem types.Type) []T {
	var out []T
	for i, s := range sortsOf(elem) {
		out = append(out, ex.decls.fresh(fmt.Sprintf("%s_m%d", hint, i), arrOf(s)))
	}
	return out
}

// freshVal builds an unconstrained symbolic value of Go type t (with type-range facts).
func (ex *Exec) freshVal(st *State, hint string, t types.Type, strict bool) Val {
	switch u := t.Underlying().(type) {
	case *types.Basic:
		if u.Info()&types.IsBoolean != 0 {
			return VBool{ex.decls.fresh(hint, SBool)}
		}
		if u.Info()&types.IsString != 0 {
			return ex.freshSlice(st, hint, types.Typ[types.Uint8], true, strict)
		}
		if u.Info()&types.IsInteger != 0 {
			x := ex.decls.fresh(hint, SInt)
			st.assume(rangeFact(t, x))
			return VInt{x}
		}
		ex.note("out-of-subset: value of type " + t.String())
		return VOpaque{ex.decls.fresh(hint, SInt), t}
	case *types.Slice:
		return ex.freshSlice(st, hint, u.Elem(), false, strict)
	case *types.Array:
		r := ex.newRegion(hint, strict, false)
		st.mem[r] = ex.freshMem(hint, u.Elem())
		n := num(u.Len())
		return VSlice{R: r, Elem: u.Elem(), Off: "0", Len: n, Cap: n}
	case *types.Struct:
		vs := VStruct{Typ: t}
		for i := 0; i < u.NumFields(); i++ {
			vs.F = append(vs.F, ex.freshVal(st, hint+"_"+u.Field(i).Name(), u.Field(i).Type(), strict))
		}
		return vs
	case *types.Pointer:
		if n, ok := heapStructName(u.Elem()); ok {
			x := ex.decls.fresh(hint, SInt)
			st.assume(tLe("0", x))
			return VRef{x, n}
		}
		if _, isNamedStruct := u.Elem().Underlying().(*types.Struct); !isNamedStruct {
			// pointer to a non-struct variable (e.g. *readBuf): a cell with arbitrary contents
			c := ex.newCell(hint, u.Elem())
			st.cells[c] = ex.freshVal(st, hint+"_pointee", u.Elem(), strict)
			return VCellPtr{C: c}
		}
		x := ex.decls.fresh(hint, SInt)
		return VOpaque{x, t}
	case *types.Signature:
		x := ex.decls.fresh(hint, SInt)
		st.assume(tLe("0", x))
		return VFunc{ID: x}
	case *types.Map:
		return VMap{ID: ex.decls.fresh(hint, SInt), Typ: t, Unknown: true}
	case *types.Interface:
		return VIface{ID: ex.decls.fresh(hint, SInt)}
	}
	x := ex.decls.fresh(hint, SInt)
	return VOpaque{x, t}
}

func (ex *Exec) heapTop() T { return ex.decls.named("HEAPTOP", SInt) }

func (ex *Exec) freshSlice(st *State, hint string, elem types.Type, str, strict bool) VSlice {
	r := ex.newRegion(hint, strict, false)
	st.mem[r] = ex.freshMem(hint, elem)
	off := ex.decls.fresh(hint+"_off", SInt)
	ln := ex.decls.fresh(hint+"_len", SInt)
	cp := ln
	st.assume(tLe("0", off))
	st.assume(tLe("0", ln))
	if !str {
		cp = ex.decls.fresh(hint+"_cap", SInt)
		st.assume(tLe(ln, cp))
	}
	st.assume(tLe(cp, two48))
	return VSlice{R: r, Elem: elem, Off: off, Len: ln, Cap: cp, Str: str}
}

// flatten / unflatten values to SMT components (for storage in heap fields and nested slices)
func (ex *Exec) flatten(st *State, v Val, t types.Type) []T {
	switch x := v.(type) {
	case VInt:
		return []T{x.T}
	case VBool:
		return []T{x.T}
	case VRef:
		return []T{x.T}
	case VNilPtr:
		return []T{"0"}
	case VOpaque:
		return []T{x.T}
	case VFunc:
		return []T{x.ID}
	case VIface:
		return []T{x.ID}
	case VMap:
		return []T{x.ID}
	case VSlice:
		m := st.mem[x.R]
		if m == nil {
			// nil slice: zero memory
			for _, s := range sortsOf(x.Elem) {
				m = append(m, zeroOfSort(arrOf(s)))
			}
		}
		out := append([]T(nil), m...)
		return append(out, x.Off, x.Len, x.Cap)
	case VStruct:
		var out []T
		u := t.Underlying().(*types.Struct)
		for i, f := range x.F {
			out = append(out, ex.flatten(st, f, u.Field(i).Type())...)
		}
		return out
	case VCellPtr, VElemPtr, VFieldPtr, VGlobalPtr:
		ex.note("out-of-subset: pointer to local stored in aggregate")
		return []T{ex.decls.fresh("ptr", SInt)}
	}
	panic(fmt.Sprintf("flatten %T", v))
}

func (ex *Exec) unflatten(st *State, comps []T, t types.Type, strict bool) (Val, []T) {
	switch u := t.Underlying().(type) {
	case *types.Basic:
		if u.Info()&types.IsBoolean != 0 {
			return VBool{comps[0]}, comps[1:]
		}
		if u.Info()&types.IsString != 0 {
			r := ex.newRegion("ld", strict, false)
			st.mem[r] = []T{comps[0]}
			return VSlice{R: r, Elem: types.Typ[types.Uint8], Off: comps[1], Len: comps[2], Cap: comps[3], Str: true}, comps[4:]
		}
		return VInt{comps[0]}, comps[1:]
	case *types.Slice, *types.Array:
		elem := elemOf(t)
		k := len(sortsOf(elem))
		r := ex.newRegion("ld", strict, false)
		st.mem[r] = append([]T(nil), comps[:k]...)
		return VSlice{R: r, Elem: elem, Off: comps[k], Len: comps[k+1], Cap: comps[k+2]}, comps[k+3:]
	case *types.Struct:
		vs := VStruct{Typ: t}
		for i := 0; i < u.NumFields(); i++ {
			var f Val
			f, comps = ex.unflatten(st, comps, u.Field(i).Type(), strict)
			vs.F = append(vs.F, f)
		}
		return vs, comps
	case *types.Pointer:
		if n, ok := heapStructName(u.Elem()); ok {
			return VRef{comps[0], n}, comps[1:]
		}
		return VOpaque{comps[0], t}, comps[1:]
	case *types.Signature:
		if f, ok := ex.prog.lookupFuncByID(comps[0]); ok {
			return f, comps[1:]
		}
		return VFunc{ID: comps[0]}, comps[1:]
	case *types.Interface:
		return VIface{ID: comps[0]}, comps[1:]
	}
	return VOpaque{comps[0], t}, comps[1:]
}

// facts about a value just read from untrusted-but-typed storage
func (ex *Exec) typeFacts(st *State, v Val, t types.Type) {
	switch x := v.(type) {
	case VInt:
		st.assume(rangeFact(t, x.T))
	case VSlice:
		st.assume(tLe("0", x.Off))
		st.assume(tLe("0", x.Len))
		st.assume(tLe(x.Len, x.Cap))
		st.assume(tLe(x.Cap, two48))
	case VStruct:
		u := t.Underlying().(*types.Struct)
		for i, f := range x.F {
			ex.typeFacts(st, f, u.Field(i).Type())
		}
	case VRef:
		st.assume(tLe("0", x.T))
	}
}

func zeroVal(ex *Exec, st *State, t types.Type) Val {
	switch u := t.Underlying().(type) {
	case *types.Basic:
		if u.Info()&types.IsBoolean != 0 {
			return VBool{"false"}
		}
		if u.Info()&types.IsString != 0 {
			return ex.litSlice(st, nil, true)
		}
		return VInt{"0"}
	case *types.Slice:
		r := ex.newRegion("nil", false, true)
		var m []T
		for _, s := range sortsOf(u.Elem()) {
			m = append(m, zeroOfSort(arrOf(s)))
		}
		st.mem[r] = m
		return VSlice{R: r, Elem: u.Elem(), Off: "0", Len: "0", Cap: "0"}
	case *types.Array:
		r := ex.newRegion("arr", false, true)
		var m []T
		for _, s := range sortsOf(u.Elem()) {
			m = append(m, zeroOfSort(arrOf(s)))
		}
		st.mem[r] = m
		n := num(u.Len())
		if isByteElem(u.Elem()) && u.Len() <= 4096 {
			st.lits[r] = make([]int16, u.Len())
		}
		return VSlice{R: r, Elem: u.Elem(), Off: "0", Len: n, Cap: n}
	case *types.Struct:
		vs := VStruct{Typ: t}
		for i := 0; i < u.NumFields(); i++ {
			vs.F = append(vs.F, zeroVal(ex, st, u.Field(i).Type()))
		}
		return vs
	case *types.Pointer:
		if n, ok := heapStructName(u.Elem()); ok {
			return VRef{"0", n}
		}
		return VOpaque{"0", t}
	case *types.Signature:
		return VFunc{ID: "0"}
	case *types.Interface:
		return VIface{ID: "0"}
	case *types.Map:
		return VMap{ID: "0", Typ: t}
	}
	return VOpaque{"0", t}
}

func (ex *Exec) litSlice(st *State, b []byte, str bool) VSlice {
	r := ex.newRegion("lit", false, true)
	m := zeroOfSort(SBytes)
	for i, c := range b {
		m = tStore(m, num(int64(i)), num(int64(c)))
	}
	st.mem[r] = []T{m}
	n := num(int64(len(b)))
	return VSlice{R: r, Elem: types.Typ[types.Uint8], Off: "0", Len: n, Cap: n, Str: str, Lit: append([]byte(nil), b...), HasLit: true}
}

// ---------------------------------------------------------------------------
// Obligations

func (f *frame) ob(st *State, kind string, pos token.Pos, goal T, desc string) {
	ex := f.ex
	if st.dead {
		return
	}
	// obligations raised inside an inlined callee are attributed to the callee's key
	name := f.key + "#" + kind
	o := &Obligation{Fn: f.key, Kind: kind, Name: name, Goal: goal, Desc: desc, Decls: ex.decls,
		Facts: st.facts[:len(st.facts):len(st.facts)], Entry: ex.snap, PathID: ex.paths}
	if pos.IsValid() {
		o.Pos = ex.prog.fset.Position(pos)
	}
	if goal == "true" {
		o.Trivial = true
	}
	o.prior = st.priors
	if goal == "false" {
		ex.killers = append(ex.killers, o)
	}
	if !o.Trivial && !strings.HasPrefix(kind, "decreases.") && !strings.HasPrefix(kind, "post.") {
		st.priors = &priorNode{o, st.priors}
	}
	ex.obs = append(ex.obs, o)
}

func (f *frame) ord(kind string, ins ssa.Instruction) string {
	return fmt.Sprintf("%s[%d]", kind, f.ordinal[ins])
}

// ---------------------------------------------------------------------------
// Frame setup

func computeOrdinals(fn *ssa.Function) map[ssa.Instruction]int {
	type item struct {
		ins  ssa.Instruction
		kind string
		pos  token.Pos
		seq  int
	}
	var items []item
	seq := 0
	for _, b := range fn.Blocks {
		for _, ins := range b.Instrs {
			k := ""
			switch x := ins.(type) {
			case *ssa.IndexAddr, *ssa.Index:
				k = "index"
			case *ssa.Slice:
				k = "slice"
			case *ssa.BinOp:
				k = "binop"
			case *ssa.UnOp:
				if x.Op == token.MUL {
					k = "deref"
				} else {
					k = "unop"
				}
			case *ssa.Store:
				k = "store"
			case *ssa.Call:
				k = "call"
			case *ssa.FieldAddr:
				k = "field"
			case *ssa.TypeAssert:
				k = "assert"
			case *ssa.Convert:
				k = "conv"
			case *ssa.MakeSlice:
				k = "make"
			case *ssa.Defer:
				k = "call"
			case *ssa.MapUpdate:
				k = "mapupdate"
			case *ssa.Return:
				k = "return"
			}
			if k != "" {
				items = append(items, item{ins, k, ins.Pos(), seq})
				seq++
			}
		}
	}
	sort.SliceStable(items, func(i, j int) bool {
		pi, pj := items[i].pos, items[j].pos
		if pi != pj {
			if !pi.IsValid() {
				return false
			}
			if !pj.IsValid() {
				return true
			}
			return pi < pj
		}
		return items[i].seq < items[j].seq
	})
	cnt := map[string]int{}
	out := map[ssa.Instruction]int{}
	for _, it := range items {
		cnt[it.kind]++
		out[it.ins] = cnt[it.kind]
	}
	return out
}

func computeLoops(fn *ssa.Function) map[*ssa.BasicBlock]*loopInfo {
	loops := map[*ssa.BasicBlock]*loopInfo{}
	for _, b := range fn.Blocks {
		for _, s := range b.Succs {
			if s.Dominates(b) { // back edge b -> s
				li := loops[s]
				if li == nil {
					li = &loopInfo{header: s, blocks: map[*ssa.BasicBlock]bool{s: true}}
					loops[s] = li
				}
				// natural loop: nodes that reach b without going through s
				stack := []*ssa.BasicBlock{b}
				for len(stack) > 0 {
					x := stack[len(stack)-1]
					stack = stack[:len(stack)-1]
					if li.blocks[x] {
						continue
					}
					li.blocks[x] = true
					for _, p := range x.Preds {
						stack = append(stack, p)
					}
				}
			}
		}
	}
	var ls []*loopInfo
	for _, li := range loops {
		li.isRange = strings.HasPrefix(li.header.Comment, "rangeindex") || strings.HasPrefix(li.header.Comment, "rangeiter")
		min := token.NoPos
		for b := range li.blocks {
			for _, ins := range b.Instrs {
				if p := ins.Pos(); p.IsValid() && (!min.IsValid() || p < min) {
					min = p
				}
			}
		}
		li.pos = min
		ls = append(ls, li)
	}
	sort.Slice(ls, func(i, j int) bool {
		if ls[i].pos != ls[j].pos {
			return ls[i].pos < ls[j].pos
		}
		if len(ls[i].blocks) != len(ls[j].blocks) {
			return len(ls[i].blocks) > len(ls[j].blocks)
		}
		return ls[i].header.Index < ls[j].header.Index
	})
	for i, li := range ls {
		li.ordinal = i + 1
	}
	return loops
}

// freshGhost: an arbitrary value for a ghost variable of the given sort (int, bool or a byte view).
func (ex *Exec) freshGhost(st *State, name string, sort string) Val {
	switch sort {
	case SBool:
		return VBool{ex.decls.fresh("gv_"+name, SBool)}
	case SBytes:
		return ex.freshVal(st, "gv_"+name, types.NewSlice(types.Typ[types.Uint8]), false)
	}
	return VInt{ex.decls.fresh("gv_"+name, SInt)}
}

func (ex *Exec) newFrame(fn *ssa.Function, caller *frame) *frame {
	key := ex.prog.keyOf(fn)
	f := &frame{fn: fn, ex: ex, key: key, con: ex.prog.contracts[key], cellOf: map[*ssa.Alloc]*Cell{}, caller: caller}
	f.loops = ex.prog.loopsOf(fn)
	f.ordinal = ex.prog.ordinalsOf(fn)
	return f
}

// ---------------------------------------------------------------------------
// Running a function as verification target

func (ex *Exec) runTop(fn *ssa.Function) {
	st := &State{cells: map[*Cell]Val{}, regs: map[ssa.Value]Val{}, mem: map[*Region][]T{}, heap: map[string][]T{},
		variants: map[*ssa.BasicBlock][]T{}, iters: map[*ssa.BasicBlock]int{}, ghost: map[string]Val{}, lits: map[*Region][]int16{}}
	ex.runInits(st, fn)
	if fn.Name() == "init" && fn.Parent() == nil {
		// package initialisers are straight-line code over constants: executed concretely
		// (callees inlined, loops unrolled), so every obligation is a ground fact
		ex.initMode = true
	}
	f := ex.newFrame(fn, nil)
	ex.top = f
	ex.fnKey = f.key
	snap := &EntrySnapshot{Fn: fn, Extra: map[string]string{}}
	ex.snap = snap
	ex.prog.initGlobals(ex, st, fn.Pkg)
	for _, p := range fn.Params {
		v := ex.freshVal(st, "in_"+p.Name(), p.Type(), true)
		if r, ok := v.(VRef); ok {
			// objects that exist at entry lie below the allocation frontier
			st.assume(tLe("0", ex.heapTop()))
			st.assume(tLe(r.T, ex.heapTop()))
		}
		if sl, ok := v.(VSlice); ok {
			sl.R.input = true
			snap.Params = append(snap.Params, EntryParam{p.Name(), p.Type(), v, st.mem[sl.R]})
		} else {
			snap.Params = append(snap.Params, EntryParam{p.Name(), p.Type(), v, nil})
		}
		f.params = append(f.params, v)
	}
	for _, fv := range fn.FreeVars {
		// free variables are pointers to captured variables: model as cells with arbitrary contents
		pt := fv.Type().(*types.Pointer)
		c := ex.newCell(fv.Name(), pt.Elem())
		cv := ex.freshVal(st, "fv_"+fv.Name(), pt.Elem(), true)
		st.cells[c] = cv
		f.free = append(f.free, VCellPtr{C: c})
		snap.Params = append(snap.Params, EntryParam{"$free:" + fv.Name(), pt.Elem(), cv, nil})
	}
	st.assume(tLe("0", ex.heapTop()))
	if ex.initRefs > 0 {
		st.assume(tLe(num(int64(ex.initRefs)), ex.heapTop()))
	}
	st.frontier = ex.heapTop()
	for name, sort := range ex.prog.spec.GhostVars {
		if _, ok := st.ghost[name]; !ok {
			st.ghost[name] = ex.freshGhost(st, name, sort)
		}
	}
	if _, ok := st.ghost["atomic_loads"]; !ok {
		st.ghost["atomic_loads"] = VInt{ex.decls.fresh("gv_atomic_loads", SInt)}
	}
	if ex.rel != nil {
		ex.rel.setup(ex, st, f)
	}
	f.entry = st.clone()
	snap.ex = ex
	snap.st = f.entry
	// assume preconditions
	if f.con != nil {
		st.ghost["held"] = VOpaque{T: f.heldAtEntry()}
		f.entry = st.clone()
		env := f.specEnv(st, f.entry, nil)
		for _, c := range f.con.Requires {
			v := env.evalBool(c.E)
			st.assume(v)
		}
		for _, u := range f.con.Uses {
			l := ex.prog.lemmaByName(u)
			if l == nil {
				panic("uses: unknown axiom or lemma " + u)
			}
			st.assume(ex.prog.quantifiedLemma(ex, st, f, l))
			if l.Axiom {
				ex.assumed["axiom "+l.Name+": "+l.Src] = true
			}
		}
		for _, c := range f.con.Assumes {
			st.assume(env.evalBool(c.E))
			ex.assumed["spec definition/axiom assumed in "+f.key+": "+c.Src] = true
		}
		f.entry = st.clone()
		snap.st = f.entry
		f.runGhost(st, "entry")
		// vacuity cover: the precondition must be satisfiable
		ex.cover(f, st, "cover.pre", "preconditions and type invariants are satisfiable")
	}
	ex.execBlock(f, st, fn.Blocks[0], nil)
}

// feasible asks the solver whether the current path condition is satisfiable (unknown counts
// as feasible). Used to prune unrolled loops whose trip count is bounded only semantically.
func (ex *Exec) feasible(st *State) bool {
	o := &Obligation{Goal: "false", Decls: ex.decls, Facts: st.facts}
	st1, _ := runOne(solvers[1], obligationScript(o, false, false), 2000, context.Background())
	return st1 != "unsat"
}

func (ex *Exec) cover(f *frame, st *State, kind, desc string) {
	o := &Obligation{Fn: f.key, Kind: kind, Name: f.key + "#" + kind, Goal: "false", Desc: desc, Decls: ex.decls,
		Facts: st.facts[:len(st.facts):len(st.facts)], Entry: ex.snap}
	ex.covers = append(ex.covers, o)
}

// ---------------------------------------------------------------------------
// Block execution

const maxPaths = 4000

func (ex *Exec) execBlock(f *frame, st *State, b *ssa.BasicBlock, from *ssa.BasicBlock) {
	if st.dead || ex.aborted != "" {
		return
	}
	ex.steps++
	if ex.steps%64 == 0 && !ex.deadline.IsZero() && time.Now().After(ex.deadline) {
		ex.aborted = fmt.Sprintf("symbolic execution of %s exceeded its time budget (%s)", ex.fnKey, genBudget)
		return
	}
	if li := f.loops[b]; li != nil {
		ls := f.loopSpec(li)
		// a range loop over a table of known small length is executed, not cut, unless the contract
		// gives it an invariant: exact, and it keeps working when the loop moves into a helper
		autoUnroll := (ls == nil || len(ls.Invariants) == 0 && len(ls.Decreases) == 0) && f.concreteRangeMax(st, li, 12)
		if ls != nil && ls.Unroll || f.ex.prog.forceUnroll[f.key] || ex.initMode || (ex.relMode && f.concreteRange(st, li)) || autoUnroll {
			st.iters[b]++
			if st.iters[b] > 4 && !ex.initMode && !ex.feasible(st) {
				// the unrolled path has become infeasible: prune it
				return
			}
			if st.iters[b] > 300 {
				ex.aborted = fmt.Sprintf("%s: unrolled loop %d exceeded 300 iterations", f.key, li.ordinal)
				return
			}
		} else if from != nil && li.blocks[from] {
			// back edge: check invariant preservation and variant
			f.loopBackEdge(st, li, ls)
			ex.paths++
			return
		} else {
			if !f.loopEntry(st, li, ls) {
				return
			}
		}
	}
	ex.execFrom(f, st, b, 0, from)
}

// execFrom executes the instructions of b from index start.
func (ex *Exec) execFrom(f *frame, st *State, b *ssa.BasicBlock, start int, from *ssa.BasicBlock) {
	for i := start; i < len(b.Instrs); i++ {
		ins := b.Instrs[i]
		if st.dead || ex.aborted != "" {
			return
		}
		switch x := ins.(type) {
		case *ssa.Call:
			if x.Call.Value.Name() == "ssa:deferstack" {
				st.regs[x] = VOpaque{"0", x.Type()}
				continue
			}
			v := f.call(st, x, &x.Call)
			if fk, ok := v.(VFork); ok {
				// the callee's return paths are continued separately (keeps slice offsets exact)
				for _, r := range fk.rets {
					r.st.regs[x] = tupleOf(r.vals)
					f.runGhostAfterCall(r.st, x, r.st.regs[x])
					ex.execFrom(f, r.st, b, i+1, from)
				}
				return
			}
			st.regs[x] = v
			f.runGhostAfterCall(st, x, v)
		case *ssa.Phi:
			idx := -1
			for k, p := range b.Preds {
				if p == from {
					idx = k
				}
			}
			if idx < 0 {
				panic("phi without pred")
			}
			st.regs[x] = f.val(st, x.Edges[idx])
		case *ssa.If:
			c := f.val(st, x.Cond).(VBool).T
			if c == "true" {
				ex.execBlock(f, st, b.Succs[0], b)
				return
			}
			if c == "false" {
				ex.execBlock(f, st, b.Succs[1], b)
				return
			}
			s2 := st.clone()
			st.assume(c)
			ex.execBlock(f, st, b.Succs[0], b)
			if ex.paths > ex.maxPath {
				ex.aborted = fmt.Sprintf("%s: more than %d paths", f.key, ex.maxPath)
				return
			}
			s2.assume(tNot(c))
			ex.execBlock(f, s2, b.Succs[1], b)
			return
		case *ssa.Jump:
			ex.execBlock(f, st, b.Succs[0], b)
			return
		case *ssa.Return:
			f.doReturn(st, x)
			return
		case *ssa.Panic:
			if ex.mode.Safety {
				f.ob(st, f.ord("panic", ins), x.Pos(), "false", "explicit panic reachable")
			}
			ex.paths++
			return
		default:
			f.step(st, ins)
		}
	}
}

func (f *frame) doReturn(st *State, r *ssa.Return) {
	ex := f.ex
	var vals []Val
	for _, v := range r.Results {
		vals = append(vals, f.val(st, v))
	}
	if f.inlined {
		*f.rets = append(*f.rets, retPath{st, vals})
		return
	}
	ex.paths++
	f.runGhostRet(st, vals)
	if g, ok := ex.prog.poolNew[f.fn]; ok && ex.mode.Functional && len(vals) == 1 {
		// the pool's type invariant is established by its constructor
		for _, pi := range ex.prog.spec.Pools {
			if pi.Global == g.Pkg.Pkg.Name()+"."+g.Name() {
				if iv, ok := vals[0].(VIface); ok && iv.V != nil {
					env := f.baseEnv(st, f.entry)
					env.vars["p"] = iv.V
					env.pkg = g.Pkg
					f.ob(st, "pool.establish."+sanitize(g.Name()), r.Pos(), env.evalBool(pi.E), "pool constructor establishes the type invariant: "+pi.Src)
				} else {
					f.ob(st, "pool.establish."+sanitize(g.Name()), r.Pos(), "false", "pool constructor result is not a known object")
				}
			}
		}
	}
	if f.con != nil && ex.mode.Functional {
		env := f.specEnv(st, f.entry, vals)
		for _, c := range f.con.Ensures {
			g := env.evalBool(c.E)
			f.ob(st, "post."+c.Label, r.Pos(), g, "ensures "+c.Src)
		}
		f.checkFrameAtReturn(st)
	}
	if ex.rel != nil {
		ex.rel.atReturn(ex, st, f, vals)
	}
	ex.cover(f, st, fmt.Sprintf("cover.return[%d]", f.ordinal[r]), "return reachable")
}

// ---------------------------------------------------------------------------
// Values of SSA operands

func (f *frame) val(st *State, v ssa.Value) Val {
	ex := f.ex
	switch x := v.(type) {
	case *ssa.Const:
		return f.constVal(st, x)
	case *ssa.Parameter:
		for i, p := range f.fn.Params {
			if p == x {
				return f.params[i]
			}
		}
		panic("param")
	case *ssa.FreeVar:
		for i, p := range f.fn.FreeVars {
			if p == x {
				return f.free[i]
			}
		}
		panic("freevar")
	case *ssa.Global:
		return VGlobalPtr{x}
	case *ssa.Function:
		return ex.prog.funcVal(x, nil)
	case *ssa.Builtin:
		return VOpaque{"0", x.Type()}
	}
	if r, ok := st.regs[v]; ok {
		return r
	}
	panic(fmt.Sprintf("no value for %s = %s in %s", v.Name(), v.String(), f.key))
}

func (f *frame) constVal(st *State, c *ssa.Const) Val {
	ex := f.ex
	t := c.Type()
	if c.Value == nil {
		return zeroVal(ex, st, t)
	}
	switch u := t.Underlying().(type) {
	case *types.Basic:
		switch {
		case u.Info()&types.IsBoolean != 0:
			if constant.BoolVal(c.Value) {
				return VBool{"true"}
			}
			return VBool{"false"}
		case u.Info()&types.IsString != 0:
			return ex.litSlice(st, []byte(constant.StringVal(c.Value)), true)
		case u.Info()&types.IsInteger != 0:
			bi, ok := new(big.Int).SetString(c.Value.ExactString(), 10)
			if !ok {
				if i64, ok2 := constant.Int64Val(constant.ToInt(c.Value)); ok2 {
					bi = big.NewInt(i64)
				} else {
					panic("const int " + c.Value.ExactString())
				}
			}
			return VInt{numBig(bi)}
		}
	}
	ex.note("out-of-subset: constant of type " + t.String())
	return VOpaque{ex.decls.fresh("const", SInt), t}
}

// ---------------------------------------------------------------------------
// Pointers: load / store

func (f *frame) load(st *State, p Val, t types.Type, pos token.Pos, ins ssa.Instruction) Val {
	ex := f.ex
	switch a := p.(type) {
	case VCellPtr:
		v, ok := st.cells[a.C]
		if !ok {
			panic("load of dead cell " + a.C.name)
		}
		for _, i := range a.Path {
			v = v.(VStruct).F[i]
		}
		return v
	case VElemPtr:
		v := f.readElem(st, a.S, a.Idx)
		for _, i := range a.Path {
			v = v.(VStruct).F[i]
		}
		return v
	case VFieldPtr:
		f.guardedAccess(st, a.St, a.Field, a.Ref, false, ins)
		return ex.heapLoad(st, a.St, a.Field, a.Ref)
	case VGlobalPtr:
		return ex.prog.globalLoad(ex, st, a.G)
	case VRef:
		// load of whole struct through pointer: assemble fields
		if ex.mode.Safety && ins != nil {
			f.ob(st, f.ord("nil", ins), pos, tNe(a.T, "0"), "nil pointer dereference")
		}
		u := a.St.Underlying().(*types.Struct)
		vs := VStruct{Typ: a.St}
		for i := 0; i < u.NumFields(); i++ {
			vs.F = append(vs.F, ex.heapLoad(st, a.St, i, a.T))
		}
		return vs
	case VOpaque:
		ex.note(fmt.Sprintf("out-of-subset: load through opaque pointer %s in %s", a.Typ, f.key))
		return ex.freshVal(st, "opq", t, true)
	}
	panic(fmt.Sprintf("load %T in %s", p, f.key))
}

func (f *frame) store(st *State, p Val, v Val, t types.Type, ins ssa.Instruction) {
	ex := f.ex
	switch a := p.(type) {
	case VCellPtr:
		if len(a.Path) == 0 {
			st.cells[a.C] = v
			return
		}
		st.cells[a.C] = setPath(st.cells[a.C], a.Path, v)
	case VElemPtr:
		if len(a.Path) > 0 {
			old := f.readElem(st, a.S, a.Idx)
			v = setPath(old, a.Path, v)
		}
		f.writeElem(st, a.S, a.Idx, v, ins)
	case VFieldPtr:
		f.heapStoreChecked(st, a.St, a.Field, a.Ref, v, ins)
	case VGlobalPtr:
		ex.prog.globalStore(ex, st, a.G, v)
	case VRef:
		u := a.St.Underlying().(*types.Struct)
		vs := v.(VStruct)
		for i := 0; i < u.NumFields(); i++ {
			f.heapStoreChecked(st, a.St, i, a.T, vs.F[i], ins)
		}
	default:
		ex.note(fmt.Sprintf("out-of-subset: store through %T in %s", p, f.key))
	}
}

func setPath(v Val, path []int, nv Val) Val {
	if len(path) == 0 {
		return nv
	}
	s := v.(VStruct)
	nf := append([]Val(nil), s.F...)
	nf[path[0]] = setPath(nf[path[0]], path[1:], nv)
	return VStruct{Typ: s.Typ, F: nf}
}

func (f *frame) readElem(st *State, s VSlice, idx T) Val {
	ex := f.ex
	m := st.mem[s.R]
	if m == nil {
		panic("region without memory: " + s.R.name)
	}
	at := tIdx(s.Off, idx)
	comps := make([]T, len(m))
	for i, c := range m {
		comps[i] = tSel(c, at)
	}
	v, _ := ex.unflatten(st, comps, s.Elem, s.R.strict)
	// name scalar reads to keep terms small and attach range facts
	switch x := v.(type) {
	case VInt:
		if _, isnum := isNum(x.T); !isnum {
			st.assume(rangeFact(s.Elem, x.T))
		}
	default:
		ex.typeFacts(st, v, s.Elem)
	}
	return v
}

func (f *frame) writeElem(st *State, s VSlice, idx T, v Val, ins ssa.Instruction) {
	ex := f.ex
	if s.R.input && ex.mode.Safety && ins != nil {
		f.ob(st, f.ord("frame.input", ins), ins.Pos(), "false", "write to memory of an input parameter (caller's buffer)")
	}
	if l, ok := st.lits[s.R]; ok {
		ok2 := false
		if iv, isInt := v.(VInt); isInt {
			if c, isn := isNum(iv.T); isn && c.IsInt64() && c.Int64() >= 0 && c.Int64() < 256 {
				if a, isa := isNum(tAdd(s.Off, idx)); isa && a.IsInt64() && a.Int64() >= 0 && a.Int64() < int64(len(l)) {
					nl := append([]int16(nil), l...)
					nl[a.Int64()] = int16(c.Int64())
					st.lits[s.R] = nl
					ok2 = true
				}
			}
		}
		if !ok2 {
			delete(st.lits, s.R)
		}
	}
	m := st.mem[s.R]
	comps := ex.flatten(st, v, s.Elem)
	at := tIdx(s.Off, idx)
	nm := make([]T, len(m))
	for i := range m {
		nm[i] = tStore(m[i], at, comps[i])
	}
	st.mem[s.R] = nm
}

// ---------------------------------------------------------------------------
// Heap

func (ex *Exec) heapKey(n *types.Named, field int) string {
	u := n.Underlying().(*types.Struct)
	return namedKey(n) + "." + u.Field(field).Name()
}

func (ex *Exec) heapArr(st *State, n *types.Named, field int) []T {
	k := ex.heapKey(n, field)
	if a, ok := st.heap[k]; ok {
		return a
	}
	u := n.Underlying().(*types.Struct)
	var comps []T
	var ss []string
	for i, s := range sortsOf(u.Field(field).Type()) {
		comps = append(comps, ex.decls.named(fmt.Sprintf("H0_%s_%d", k, i), arrOf(s)))
		ss = append(ss, arrOf(s))
	}
	if ex.dynHeapSorts == nil {
		ex.dynHeapSorts = map[string][]string{}
	}
	ex.dynHeapSorts[k] = ss
	st.heap[k] = comps
	return comps
}

// ghostArr: the heap map of a ghost field (single component).
func (ex *Exec) ghostArr(st *State, key string) T {
	if a, ok := st.heap[key]; ok {
		return a[0]
	}
	a := ex.decls.named("H0_"+key, ex.prog.heapSorts[key][0])
	st.heap[key] = []T{a}
	return a
}

// embRef: address of a struct-typed field embedded in a heap object. Embedded objects live at
// negative addresses, which are disjoint from nil (0) and from allocated objects (> 0).
func embRef(ref T, field int) T {
	return tNeg(tAdd(tMul(ref, "64"), num(int64(field+1))))
}

func (ex *Exec) embeddedType(n *types.Named, field int) (*types.Named, bool) {
	u := n.Underlying().(*types.Struct)
	in, ok := heapStructName(u.Field(field).Type())
	if !ok || !ex.prog.heapModelled(in) {
		return nil, false
	}
	return in, true
}

func (ex *Exec) heapLoad(st *State, n *types.Named, field int, ref T) Val {
	if in, ok := ex.embeddedType(n, field); ok {
		iu := in.Underlying().(*types.Struct)
		vs := VStruct{Typ: in}
		for i := 0; i < iu.NumFields(); i++ {
			vs.F = append(vs.F, ex.heapLoad(st, in, i, embRef(ref, field)))
		}
		return vs
	}
	arr := ex.heapArr(st, n, field)
	comps := make([]T, len(arr))
	for i, a := range arr {
		comps[i] = tSel(a, ref)
	}
	u := n.Underlying().(*types.Struct)
	ft := u.Field(field).Type()
	v, _ := ex.unflatten(st, comps, ft, true)
	ex.typeFacts(st, v, ft)
	if r, ok := v.(VRef); ok {
		_ = r
	}
	return v
}

func (ex *Exec) heapStore(st *State, n *types.Named, field int, ref T, v Val) {
	if in, ok := ex.embeddedType(n, field); ok {
		iu := in.Underlying().(*types.Struct)
		vs := v.(VStruct)
		for i := 0; i < iu.NumFields(); i++ {
			ex.heapStore(st, in, i, embRef(ref, field), vs.F[i])
		}
		return
	}
	arr := ex.heapArr(st, n, field)
	u := n.Underlying().(*types.Struct)
	comps := ex.flatten(st, v, u.Field(field).Type())
	na := make([]T, len(arr))
	for i := range arr {
		na[i] = tStore(arr[i], ref, comps[i])
	}
	st.heap[ex.heapKey(n, field)] = na
}

func (f *frame) heapStoreChecked(st *State, n *types.Named, field int, ref T, v Val, ins ssa.Instruction) {
	ex := f.ex
	if ex.mode.Functional && ins != nil {
		f.frameCheckStore(st, n, field, ref, ins)
		f.guardedAccess(st, n, field, ref, true, ins)
	}
	ex.heapStore(st, n, field, ref, v)
}
