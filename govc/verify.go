package main

// Running the executor on one function and discharging its obligations.

import (
	"context"
	"fmt"
	"os"
	"path/filepath"
	"runtime/debug"
	"sort"
	"strings"
	"sync"
	"time"

	"golang.org/x/tools/go/ssa"
)

type FnReport struct {
	Key       string
	Obs       []*Obligation
	Covers    []*Obligation
	Notes     []string
	Assumed   []string
	Inlined   []string
	UsedCons  []string
	Aborted   string
	Paths     int
	Panic     string
	GenTime   time.Duration
	SolveTime time.Duration
	Unrolled  []string
	Killers   []*Obligation // obligations whose goal is constantly false: assuming them ended their path
}

func (p *Program) newExec(mode ExecMode) *Exec {
	return &Exec{prog: p, decls: newDecls(), notes: map[string]bool{}, assumed: map[string]bool{}, mode: mode,
		maxPath: maxPaths, inlinedFns: map[string]bool{}, usedContracts: map[string]bool{}}
}

// genObligations runs the executor; when the function (or a callee executed in place) has loops
// without annotations, candidate invariants are inferred Houdini-style: candidates whose
// inv.init / inv.pres obligation is not discharged are dropped and the function is re-run, and
// candidate variants are tried in turn. Surviving candidates are ordinary proved invariants.
func (p *Program) genObligations(fn *ssa.Function, mode ExecMode, rel *relCtx) (rep *FnReport) {
	p.alignLoops(fn, mode, rel)
	began := time.Now()
	for iter := 0; iter < 8; iter++ {
		rep = p.genObligationsOnce(fn, mode, rel)
		if rep.Aborted != "" || rep.Panic != "" || time.Since(began) > genBudget {
			return rep // given up: no point in refining candidate invariants
		}
		var auto []*Obligation
		for _, o := range rep.Obs {
			if strings.Contains(o.Kind, ".auto.") || (strings.HasPrefix(o.Kind, "decreases.loop") && o.autoVariant != "") {
				auto = append(auto, o)
			}
		}
		if len(auto) == 0 {
			return rep
		}
		discharge(auto, dischargeOpts{timeoutMs: 3000, workers: 16})
		changed := false
		invDropped := false
		for _, o := range auto {
			if strings.Contains(o.Kind, ".auto.") && !(o.Result != nil && o.Result.Status == "unsat") {
				invDropped = true
			}
		}
		p.mu.Lock()
		for _, o := range auto {
			if o.Result != nil && o.Result.Status == "unsat" {
				continue
			}
			if !strings.Contains(o.Kind, ".auto.") && invDropped {
				o.Result = nil
				continue // try the same variant again once the invariants are stable
			}
			if strings.Contains(o.Kind, ".auto.") {
				// Kind: inv.init[k].auto.x.y  -> loop key fn/loopk, label auto.x.y
				i := strings.Index(o.Kind, "[")
				j := strings.Index(o.Kind, "]")
				lk := o.Fn + "/loop" + o.Kind[i+1:j]
				label := o.Kind[j+2:]
				if !p.autoDead[lk+"|"+label] {
					p.autoDead[lk+"|"+label] = true
					changed = true
				}
			} else if o.autoVariant != "" {
				p.autoVar[o.autoVariant]++
				changed = true
			}
			o.Result = nil
		}
		p.mu.Unlock()
		if !changed {
			return rep
		}
	}
	return rep
}

// alignLoops: contracts address loops by ordinal. When a change removes or adds a loop, the
// ordinals of the remaining loops shift; every order-preserving assignment of the annotated loops
// to the loops of the code is tried and the one whose user invariants fail least is kept (the
// identity when the counts agree, i.e. always on the unchanged tree). Whatever is chosen, every
// obligation still has to be discharged: the choice can only avoid spurious failures.
func (p *Program) alignLoops(fn *ssa.Function, mode ExecMode, rel *relCtx) {
	key := p.keyOf(fn)
	con := p.contracts[key]
	if con == nil || len(con.Loops) == 0 || rel != nil {
		return
	}
	n := len(p.loopsOf(fn))
	base, known := p.baseLoops[key]
	if !known || base < 0 || base == n || n == 0 {
		return // same number of loops as when the contract was written: ordinals are what they were
	}
	var ann []int
	for k := range con.Loops {
		ann = append(ann, k)
	}
	sort.Ints(ann)
	if n > 6 || len(ann) > 6 {
		return
	}
	// candidates: order-preserving correspondences between the loops of the code (1..n) and the loops
	// the contract was written for (1..base); a code loop mapped to an ordinal without annotation
	// simply has none
	var cands []map[int]int
	small, large := n, base
	codeIsSmall := true
	if n > base {
		small, large = base, n
		codeIsSmall = false
	}
	var rec func(start int, chosen []int)
	rec = func(start int, chosen []int) {
		if len(chosen) == small {
			m := map[int]int{}
			for i, c := range chosen {
				if codeIsSmall {
					m[i+1] = c + 1 // code loop i+1 is the contract's loop c+1
				} else {
					m[c+1] = i + 1 // code loop c+1 is the contract's loop i+1
				}
			}
			cands = append(cands, m)
			return
		}
		for c := start; c < large; c++ {
			rec(c+1, append(append([]int(nil), chosen...), c))
		}
	}
	rec(0, nil)
	if len(cands) == 0 {
		return
	}
	if len(cands) == 1 {
		p.setLoopRemap(key, cands[0])
		return
	}
	best, bestScore := -1, 1<<30
	for i, m := range cands {
		p.setLoopRemap(key, m)
		rep := p.genObligationsOnce(fn, mode, rel)
		score := 0
		if rep.Panic != "" || rep.Aborted != "" {
			score = 1 << 20
		} else {
			var invs []*Obligation
			for _, o := range rep.Obs {
				if strings.HasPrefix(o.Kind, "inv.") && !strings.Contains(o.Kind, ".auto.") && !strings.HasSuffix(o.Kind, ".range") {
					invs = append(invs, o)
				}
			}
			discharge(invs, dischargeOpts{timeoutMs: 3000, workers: 16})
			for _, o := range invs {
				if o.Result == nil || o.Result.Status != "unsat" {
					score++
				}
			}
		}
		if score < bestScore {
			best, bestScore = i, score
		}
	}
	p.setLoopRemap(key, cands[best])
}

var genBudget = 90 * time.Second

func (p *Program) genObligationsOnce(fn *ssa.Function, mode ExecMode, rel *relCtx) (rep *FnReport) {
	ex := p.newExec(mode)
	ex.rel = rel
	rep = &FnReport{Key: p.keyOf(fn)}
	start := time.Now()
	// symbolic execution of one function is bounded in time: a function that explodes (a change may
	// add code far outside the engine's reach) is given up, and a function that is given up proves nothing
	ex.deadline = start.Add(genBudget)
	func() {
		defer func() {
			if r := recover(); r != nil {
				rep.Panic = fmt.Sprintf("%v\n%s", r, truncate(string(debug.Stack()), 3000))
			}
		}()
		ex.runTop(fn)
	}()
	rep.GenTime = time.Since(start)
	rep.Obs = ex.obs
	rep.Killers = ex.killers
	rep.Covers = ex.covers
	rep.Aborted = ex.aborted
	rep.Paths = ex.paths
	rep.Notes = sortedKeys(ex.notes)
	rep.Assumed = sortedKeys(ex.assumed)
	rep.Inlined = sortedKeys(ex.inlinedFns)
	rep.UsedCons = sortedKeys(ex.usedContracts)
	return rep
}

// obligationScript renders one query. With prune, only the facts in the cone of influence of
// the goal (sharing declared symbols, transitively) are asserted: dropping hypotheses can only
// make a proof fail, never succeed wrongly.
func obligationScript(o *Obligation, goalNeg bool, prune bool) string {
	facts := o.Facts
	if prune && goalNeg {
		rel := map[string]bool{}
		for id := range identsIn(o.Goal) {
			if o.Decls.isDeclared(id) {
				rel[id] = true
			}
		}
		type fi struct {
			f   string
			ids []string
		}
		var fis []fi
		seen := map[string]bool{}
		for _, f := range o.Facts {
			if f == "true" || seen[f] {
				continue
			}
			seen[f] = true
			var ids []string
			for id := range identsIn(f) {
				if o.Decls.isDeclared(id) {
					ids = append(ids, id)
				}
			}
			fis = append(fis, fi{f, ids})
		}
		incl := make([]bool, len(fis))
		changed := true
		for changed {
			changed = false
			for i, x := range fis {
				if incl[i] {
					continue
				}
				hit := len(x.ids) == 0
				for _, id := range x.ids {
					if rel[id] {
						hit = true
						break
					}
				}
				if hit {
					incl[i] = true
					changed = true
					for _, id := range x.ids {
						rel[id] = true
					}
				}
			}
		}
		facts = nil
		for i, x := range fis {
			if incl[i] {
				facts = append(facts, x.f)
			}
		}
	}
	terms := append([]string{o.Goal}, facts...)
	o.Decls.mu.Lock()
	defs := append([]string(nil), o.Decls.defs...)
	o.Decls.mu.Unlock()
	used := identsIn(terms...)
	incl := map[int]bool{}
	changed := true
	for changed {
		changed = false
		for i, d := range defs {
			if incl[i] {
				continue
			}
			ids := identsIn(d)
			hit := false
			for id := range ids {
				if used[id] && o.Decls.isDeclared(id) {
					hit = true
					break
				}
			}
			if hit {
				incl[i] = true
				changed = true
				for id := range ids {
					used[id] = true
				}
			}
		}
	}
	var b strings.Builder
	b.WriteString(o.Decls.scriptDecls(func(n string) bool { return used[n] }))
	if used["idx"] {
		quantified := false
		for _, t := range terms {
			if strings.Contains(t, "(forall ") || strings.Contains(t, "(exists ") {
				quantified = true
				break
			}
		}
		for i, d := range defs {
			if incl[i] && (strings.Contains(d, "(forall ") || strings.Contains(d, "(exists ")) {
				quantified = true
			}
		}
		if quantified {
			b.WriteString(idxDecl)
		} else {
			// quantifier-free query: the address function is defined at exactly the ground terms that
			// occur, which keeps the query decidable (real models for failing obligations)
			b.WriteString("(declare-fun idx (Int Int) Int)\n")
			for _, g := range groundIdxTerms(terms) {
				parts := splitTop(g[1 : len(g)-1])
				if len(parts) == 3 {
					b.WriteString("(assert (= " + g + " (+ " + parts[1] + " " + parts[2] + ")))\n")
				}
			}
		}
	}
	for i, d := range defs {
		if incl[i] {
			b.WriteString(d)
			b.WriteString("\n")
		}
	}
	seen := map[string]bool{}
	for _, f := range facts {
		if f == "true" || seen[f] {
			continue
		}
		seen[f] = true
		b.WriteString("(assert ")
		b.WriteString(f)
		b.WriteString(")\n")
	}
	if goalNeg {
		b.WriteString("(assert (not ")
		b.WriteString(o.Goal)
		b.WriteString("))\n")
	}
	b.WriteString("(check-sat)\n(get-model)\n")
	return b.String()
}

func (d *Decls) isDeclared(n string) bool {
	d.mu.Lock()
	defer d.mu.Unlock()
	_, ok := d.sorts[n]
	return ok
}

func (d *Decls) scriptDecls(used func(string) bool) string {
	d.mu.Lock()
	defer d.mu.Unlock()
	var b strings.Builder
	for _, n := range d.order {
		if used != nil && !used(n) {
			continue
		}
		if d.funs[n] {
			fmt.Fprintf(&b, "(declare-fun %s %s)\n", n, d.sorts[n])
		} else {
			fmt.Fprintf(&b, "(declare-const %s %s)\n", n, d.sorts[n])
		}
	}
	return b.String()
}

type dischargeOpts struct {
	timeoutMs int
	all       bool // wait for all solvers (thorough)
	workers   int
}

func discharge(obs []*Obligation, opt dischargeOpts) {
	var pending []*Obligation
	for _, o := range obs {
		if o.Trivial {
			o.Result = &SolverResult{Status: "unsat", Solver: "syntactic"}
			continue
		}
		pending = append(pending, o)
	}
	// stage 1: batches of queries through one z3 process each (push/pop), pruned hypotheses
	if !opt.all {
		pending = batchStage(pending, opt)
	}
	var wg sync.WaitGroup
	sem := make(chan struct{}, opt.workers)
	for _, o := range pending {
		o := o
		wg.Add(1)
		sem <- struct{}{}
		go func() {
			defer wg.Done()
			defer func() { <-sem }()
			script := obligationScript(o, true, true)
			r := solve(script, opt.timeoutMs, opt.all)
			if r.Status != "unsat" {
				// confirm with the full hypothesis set (a model of the pruned query may violate dropped facts)
				full := obligationScript(o, true, false)
				if full != script {
					script = full
					r = solve(script, opt.timeoutMs, opt.all)
				}
			}
			o.Result = &r
			if debugDir != "" && r.Status != "unsat" {
				os.MkdirAll(debugDir, 0o755)
				os.WriteFile(filepath.Join(debugDir, sanitize(o.Name)+fmt.Sprintf("_%d.smt2", o.PathID)), []byte(script), 0o644)
			}
		}()
	}
	wg.Wait()
}

// batchStage runs the cheap solver over chunks of queries; returns those not yet proved.
func batchStage(obs []*Obligation, opt dischargeOpts) []*Obligation {
	const chunk = 24
	var wg sync.WaitGroup
	sem := make(chan struct{}, opt.workers)
	for i := 0; i < len(obs); i += chunk {
		j := i + chunk
		if j > len(obs) {
			j = len(obs)
		}
		part := obs[i:j]
		wg.Add(1)
		sem <- struct{}{}
		go func() {
			defer wg.Done()
			defer func() { <-sem }()
			start := time.Now()
			var b strings.Builder
			for _, o := range part {
				sc := obligationScript(o, true, true)
				sc = strings.Replace(sc, "(get-model)\n", "", 1)
				b.WriteString("(push 1)\n")
				b.WriteString(sc)
				b.WriteString("(pop 1)\n")
			}
			_, raw, dur := runOneT(solvers[1], b.String(), 1500, context.Background())
			var sts []string
			for _, ln := range strings.Split(raw, "\n") {
				ln = strings.TrimSpace(ln)
				switch ln {
				case "unsat", "sat", "unknown", "timeout":
					sts = append(sts, ln)
				}
			}
			if len(sts) != len(part) {
				return // malformed: every query goes to stage 2
			}
			el := dur / time.Duration(len(part))
			_ = start
			for k, o := range part {
				if sts[k] == "unsat" {
					o.Result = &SolverResult{Status: "unsat", Solver: "z3", All: map[string]string{"z3": "unsat"}, Elapsed: el}
				}
			}
		}()
	}
	wg.Wait()
	var rest []*Obligation
	for _, o := range obs {
		if o.Result == nil {
			rest = append(rest, o)
		}
	}
	return rest
}

// dischargeCovers: a cover is satisfied when the facts are satisfiable (or at least not refuted).
func dischargeCovers(obs []*Obligation, opt dischargeOpts) {
	// a cover point is reachable as soon as one of its path instances is satisfiable
	byName := map[string][]*Obligation{}
	var names []string
	for _, o := range obs {
		if _, ok := byName[o.Name]; !ok {
			names = append(names, o.Name)
		}
		byName[o.Name] = append(byName[o.Name], o)
	}
	var wg sync.WaitGroup
	sem := make(chan struct{}, opt.workers)
	for _, n := range names {
		list := byName[n]
		wg.Add(1)
		sem <- struct{}{}
		go func() {
			defer wg.Done()
			defer func() { <-sem }()
			for _, o := range list {
				script := obligationScript(o, false, false)
				r := solve(script, opt.timeoutMs, false)
				o.Result = &r
				if r.Status != "unsat" {
					return
				}
			}
		}()
	}
	wg.Wait()
}

type obSummary struct {
	Name    string
	Status  string // discharged | failed | undecided
	Count   int
	Failing []*Obligation
	Solver  map[string]int
	MaxMs   int64
	Desc    string
	Pos     string
}

func summarize(obs []*Obligation) []*obSummary {
	m := map[string]*obSummary{}
	var order []string
	for _, o := range obs {
		s := m[o.Name]
		if s == nil {
			s = &obSummary{Name: o.Name, Status: "discharged", Solver: map[string]int{}, Desc: o.Desc}
			if o.Pos.IsValid() {
				s.Pos = fmt.Sprintf("%s:%d", filepath.Base(o.Pos.Filename), o.Pos.Line)
			}
			m[o.Name] = s
			order = append(order, o.Name)
		}
		s.Count++
		if o.Result == nil {
			s.Status = "undecided"
			continue
		}
		if ms := o.Result.Elapsed.Milliseconds(); ms > s.MaxMs {
			s.MaxMs = ms
		}
		switch o.Result.Status {
		case "unsat":
			s.Solver[o.Result.Solver]++
		case "sat":
			s.Status = "failed"
			s.Failing = append(s.Failing, o)
		default:
			if s.Status != "failed" {
				s.Status = "undecided"
			}
			s.Failing = append(s.Failing, o)
		}
	}
	sort.Strings(order)
	var out []*obSummary
	for _, n := range order {
		out = append(out, m[n])
	}
	return out
}

// groundIdxTerms returns the distinct (idx a b) subterms of the given terms.
func groundIdxTerms(terms []string) []string {
	seen := map[string]bool{}
	var out []string
	for _, t := range terms {
		for i := 0; i+5 <= len(t); i++ {
			if t[i:i+5] != "(idx " {
				continue
			}
			depth := 0
			for j := i; j < len(t); j++ {
				if t[j] == '(' {
					depth++
				} else if t[j] == ')' {
					depth--
					if depth == 0 {
						g := t[i : j+1]
						if !seen[g] {
							seen[g] = true
							out = append(out, g)
						}
						break
					}
				}
			}
		}
	}
	return out
}
