package main

// Program-level obligations decided by whole-program scans of the SSA.

import (
	"fmt"
	"go/types"
	"strings"

	"golang.org/x/tools/go/ssa"
)

func specFieldNames(e Expr, out map[string]bool) {
	switch n := e.(type) {
	case *EField:
		out[n.Name] = true
		specFieldNames(n.X, out)
	case *EBin:
		specFieldNames(n.X, out)
		specFieldNames(n.Y, out)
	case *EUn:
		specFieldNames(n.X, out)
	case *ECall:
		for _, a := range n.Args {
			specFieldNames(a, out)
		}
	case *EQuant:
		specFieldNames(n.Body, out)
	case *EOld:
		specFieldNames(n.X, out)
	case *EIndex:
		specFieldNames(n.X, out)
		specFieldNames(n.I, out)
	}
}

func (p *Program) programObligations(id string) []*Obligation {
	var out []*Obligation
	var decided decidedFn = func(name, desc string, ok bool, pos ssa.Instruction) *Obligation {
		o := &Obligation{Fn: name[:strings.Index(name, "#")], Kind: name[strings.Index(name, "#")+1:], Name: name, Desc: desc, Goal: "true", Decls: newDecls()}
		if !ok {
			o.Goal = "false"
			o.Result = &SolverResult{Status: "sat", Solver: "scan", All: map[string]string{"scan": "sat"}}
		} else {
			o.Trivial = true
			o.Result = &SolverResult{Status: "unsat", Solver: "scan"}
		}
		if pos != nil && pos.Pos().IsValid() {
			o.Pos = p.fset.Position(pos.Pos())
		}
		return o
	}
	if id == "C16" || id == "C04" || id == "C01" {
		// pool type invariants are preserved: the fields they mention are stored to only by the constructor
		for _, pi := range p.spec.Pools {
			var g *ssa.Global
			var newFn *ssa.Function
			for fn, gg := range p.poolNew {
				if gg.Pkg.Pkg.Name()+"."+gg.Name() == pi.Global {
					g, newFn = gg, fn
				}
			}
			name := pi.Global + "#pool.preserved"
			if g == nil {
				out = append(out, decided(name, "pool with a declared invariant exists", false, nil))
				continue
			}
			pt, _ := p.poolTypes[g].(*types.Pointer)
			if pt == nil {
				out = append(out, decided(name, "pooled objects have a known pointer type", false, nil))
				continue
			}
			fields := map[string]bool{}
			specFieldNames(pi.E, fields)
			bad := 0
			for _, fn := range p.funcs {
				if fn == newFn {
					continue
				}
				for _, b := range fn.Blocks {
					for _, ins := range b.Instrs {
						st, ok := ins.(*ssa.Store)
						if !ok {
							continue
						}
						switch a := st.Addr.(type) {
						case *ssa.FieldAddr:
							if types.Identical(a.X.Type(), pt) {
								u := pt.Elem().Underlying().(*types.Struct)
								if fields[u.Field(a.Field).Name()] {
									bad++
									out = append(out, decided(fmt.Sprintf("%s#pool.preserved.store[%s]", pi.Global, p.keyOf(fn)),
										"store to a field constrained by the pool invariant outside the pool constructor: "+pi.Src, false, ins))
								}
							}
						default:
							// whole-struct store through a pointer to the pooled type: *p = T{...}
							if types.Identical(st.Addr.Type(), pt) {
								if _, isAlloc := st.Addr.(*ssa.Alloc); !isAlloc {
									bad++
									out = append(out, decided(fmt.Sprintf("%s#pool.preserved.store[%s]", pi.Global, p.keyOf(fn)),
										"whole-object store to a pooled object outside the pool constructor overwrites fields constrained by: "+pi.Src, false, ins))
								}
							}
						}
					}
				}
			}
			// objects of the pooled type are created only by the pool constructor: an object made any
			// other way (zero value, literal, embedded in another struct) never had the invariant
			{
				elem := pt.Elem()
				contains := func(t types.Type) bool {
					var walk func(t types.Type, d int) bool
					walk = func(t types.Type, d int) bool {
						if d > 4 {
							return false
						}
						if types.Identical(t, elem) {
							return true
						}
						switch u := t.Underlying().(type) {
						case *types.Struct:
							for i := 0; i < u.NumFields(); i++ {
								if walk(u.Field(i).Type(), d+1) {
									return true
								}
							}
						case *types.Array:
							return walk(u.Elem(), d+1)
						}
						return false
					}
					return walk(t, 0)
				}
				badAlloc := 0
				for _, fn := range p.funcs {
					if fn == newFn {
						continue
					}
					for _, b := range fn.Blocks {
						for _, ins := range b.Instrs {
							var at types.Type
							switch x := ins.(type) {
							case *ssa.Alloc:
								at = x.Type().(*types.Pointer).Elem()
							case *ssa.MakeSlice:
								if sl, ok := x.Type().Underlying().(*types.Slice); ok {
									at = sl.Elem()
								}
							}
							if at != nil && contains(at) {
								badAlloc++
								out = append(out, decided(fmt.Sprintf("%s#pool.only_constructor.alloc[%s]", pi.Global, p.keyOf(fn)),
									"object of the pooled type created outside the pool constructor (it does not satisfy "+pi.Src+")", false, ins))
							}
						}
					}
				}
				out = append(out, decided(pi.Global+"#pool.only_constructor", "objects of the pooled type are created only by the pool constructor, which establishes: "+pi.Src, badAlloc == 0, nil))
			}
			// the claimed obligation itself fails too (the per-site ones above say where)
			out = append(out, decided(name, "no instruction outside the pool constructor stores to a field mentioned in: "+pi.Src, bad == 0, nil))
		}
	}
	if id == "C04" {
		out = append(out, p.scanResetCoverage(decided)...)
		out = append(out, p.scanNoGlobalWrites(decided)...)
		out = append(out, p.scanPoolReaderReset(decided)...)
		out = append(out, p.scanMapIteration(decided)...)
	}
	if id == "C06" {
		out = append(out, p.scanAtomicGlobals(decided)...)
	}
	if id == "C13" {
		out = append(out, p.scanCSVConfig(decided)...)
	}
	return out
}

type decidedFn func(name, desc string, ok bool, pos ssa.Instruction) *Obligation

// scanResetCoverage: every field of a pooled object type that has a reset method is either
// re-initialised by reset (mentioned in its ensures) or never stored to outside the pool
// constructor (configuration).
func (p *Program) scanResetCoverage(decided decidedFn) []*Obligation {
	var out []*Obligation
	for g, t := range p.poolTypes {
		pt, ok := t.(*types.Pointer)
		if !ok {
			continue
		}
		n, ok := pt.Elem().(*types.Named)
		if !ok || !p.heapModelled(n) {
			continue
		}
		key := namedKey(n)
		pk := key[:strings.Index(key, ".")]
		con := p.contracts[pk+".(*"+n.Obj().Name()+").reset"]
		name := g.Pkg.Pkg.Name() + "." + g.Name() + "#C04.reset_covers_all_fields"
		if con == nil {
			out = append(out, decided(name, "pooled type "+key+" has a reset method under contract", false, nil))
			continue
		}
		covered := map[string]bool{}
		for _, c := range con.Ensures {
			specFieldNames(c.E, covered)
		}
		var newFn *ssa.Function
		for fn, gg := range p.poolNew {
			if gg == g {
				newFn = fn
			}
		}
		u := n.Underlying().(*types.Struct)
		allOK := true
		for i := 0; i < u.NumFields(); i++ {
			fname := u.Field(i).Name()
			if covered[fname] {
				continue
			}
			// not reset: must be immutable after construction
			for _, fn := range p.funcs {
				if fn == newFn {
					continue
				}
				for _, b := range fn.Blocks {
					for _, ins := range b.Instrs {
						st, ok := ins.(*ssa.Store)
						if !ok {
							continue
						}
						if fa, ok := st.Addr.(*ssa.FieldAddr); ok && types.Identical(fa.X.Type(), pt) && fa.Field == i {
							allOK = false
							out = append(out, decided(fmt.Sprintf("%s.%s[%s]", name, fname, p.keyOf(fn)),
								"field "+fname+" of pooled "+key+" is written during use but not re-initialised by reset", false, ins))
						}
					}
				}
			}
		}
		out = append(out, decided(name, "every field of pooled "+key+" is re-initialised by reset or never written after construction", allOK, nil))
	}
	return out
}

// scanNoGlobalWrites: no function on the detection path stores to a package-level variable.
func (p *Program) scanNoGlobalWrites(decided decidedFn) []*Obligation {
	var out []*Obligation
	allowed := map[string]bool{"mimetype.SetLimit": true, "mimetype.Extend": true, "mimetype.(*MIME).Extend": true}
	bad := 0
	for key, fn := range p.funcs {
		if fn.Name() == "init" || (fn.Parent() != nil && fn.Parent().Name() == "init") || allowed[key] {
			continue
		}
		for _, b := range fn.Blocks {
			for _, ins := range b.Instrs {
				var root ssa.Value
				switch x := ins.(type) {
				case *ssa.Store:
					root = x.Addr
				case *ssa.MapUpdate:
					root = x.Map
				default:
					continue
				}
				for {
					switch y := root.(type) {
					case *ssa.FieldAddr:
						root = y.X
						continue
					case *ssa.IndexAddr:
						root = y.X
						continue
					case *ssa.UnOp:
						// load of a global holding a map or slice that is then written through
						if _, ok := y.X.(*ssa.Global); ok {
							if _, isMap := y.Type().Underlying().(*types.Map); isMap {
								root = y.X
								continue
							}
						}
					}
					break
				}
				if g, ok := root.(*ssa.Global); ok && p.inRepoGlobal(g) {
					bad++
					out = append(out, decided(fmt.Sprintf("%s#C04.no_global_write[%s]", key, g.Name()),
						"store to package-level variable "+g.Name()+" outside SetLimit/Extend/init (detection must not keep state between calls)", false, ins))
				}
			}
		}
	}
	out = append(out, decided("mimetype.detection#C04.no_global_write", "no function other than SetLimit/Extend/initialisers stores to a package-level variable (pools are accessed only through sync.Pool)", bad == 0, nil))
	return out
}

func (p *Program) inRepoGlobal(g *ssa.Global) bool {
	return g.Pkg != nil && strings.HasPrefix(g.Pkg.Pkg.Path(), repoModule)
}

// scanPoolReaderReset: a pooled *bufio.Reader is Reset on the new source before it is used.
func (p *Program) scanPoolReaderReset(decided decidedFn) []*Obligation {
	var out []*Obligation
	for g, t := range p.poolTypes {
		if !strings.Contains(t.String(), "bufio.Reader") {
			continue
		}
		name := g.Pkg.Pkg.Name() + "." + g.Name() + "#C04.pooled_reader_reset"
		okAll := true
		found := false
		for key, fn := range p.funcs {
			for _, b := range fn.Blocks {
				for _, ins := range b.Instrs {
					c, ok := ins.(*ssa.Call)
					if !ok || c.Call.StaticCallee() == nil || c.Call.StaticCallee().String() != "(*sync.Pool).Get" || len(c.Call.Args) == 0 || c.Call.Args[0] != ssa.Value(g) {
						continue
					}
					found = true
					// the type-asserted value must be the receiver of a Reset call in the same function
					reset := false
					for _, b2 := range fn.Blocks {
						for _, i2 := range b2.Instrs {
							if c2, ok := i2.(*ssa.Call); ok && c2.Call.StaticCallee() != nil && c2.Call.StaticCallee().String() == "(*bufio.Reader).Reset" {
								if ta, ok := c2.Call.Args[0].(*ssa.TypeAssert); ok && ta.X == ssa.Value(c) {
									reset = true
								}
								if un, ok := c2.Call.Args[0].(*ssa.UnOp); ok {
									_ = un
									reset = true
								}
							}
						}
					}
					if !reset {
						okAll = false
						out = append(out, decided(name+"["+key+"]", "pooled bufio.Reader obtained without Reset on the new source", false, ins))
					}
				}
			}
		}
		if found {
			out = append(out, decided(name, "every Get of the pooled bufio.Reader is followed by Reset(source) in the same function", okAll, nil))
		}
	}
	return out
}

// scanMapIteration: iteration over a map visits entries in an order that differs from run to run, so
// a result computed from it is not a function of the input. No library function ranges over a map.
func (p *Program) scanMapIteration(decided decidedFn) []*Obligation {
	var out []*Obligation
	bad := 0
	for key, fn := range p.funcs {
		for _, b := range fn.Blocks {
			for _, ins := range b.Instrs {
				r, ok := ins.(*ssa.Range)
				if !ok {
					continue
				}
				if _, isMap := r.X.Type().Underlying().(*types.Map); isMap {
					bad++
					out = append(out, decided(fmt.Sprintf("%s#C04.no_map_iteration", key), "range over a map: the iteration order is not determined by the input", false, ins))
				}
			}
		}
	}
	out = append(out, decided("mimetype.detection#C04.no_map_iteration", "no function iterates over a map (iteration order is not a function of the input)", bad == 0, nil))
	return out
}

// scanCSVConfig: the field semantics of CSV/TSV are encoding/csv's (assumed) under one
// configuration: Comma = the separator, LazyQuotes, Comment '#', ReuseRecord; every other option
// (TrimLeadingSpace, FieldsPerRecord, ...) keeps its default. The set of csv.Reader options the
// repository assigns is part of that assumption and is pinned here.
func (p *Program) scanCSVConfig(decided decidedFn) []*Obligation {
	var out []*Obligation
	want := map[string]bool{"Comma": true, "ReuseRecord": true, "LazyQuotes": true, "Comment": true}
	got := map[string]bool{}
	bad := 0
	for key, fn := range p.funcs {
		for _, b := range fn.Blocks {
			for _, ins := range b.Instrs {
				st, ok := ins.(*ssa.Store)
				if !ok {
					continue
				}
				fa, ok := st.Addr.(*ssa.FieldAddr)
				if !ok {
					continue
				}
				pt, ok := fa.X.Type().Underlying().(*types.Pointer)
				if !ok {
					continue
				}
				n, ok := pt.Elem().(*types.Named)
				if !ok || n.Obj().Pkg() == nil || n.Obj().Pkg().Path() != "encoding/csv" || n.Obj().Name() != "Reader" {
					continue
				}
				name := n.Underlying().(*types.Struct).Field(fa.Field).Name()
				got[name] = true
				if !want[name] {
					bad++
					out = append(out, decided(fmt.Sprintf("%s#C13.csv_config[%s]", key, name), "csv.Reader option "+name+" is assigned: the assumed field semantics are those of the default for this option", false, ins))
				}
			}
		}
	}
	for name := range want {
		if !got[name] {
			bad++
			out = append(out, decided("magic.sv#C13.csv_config["+name+"]", "csv.Reader option "+name+" is no longer assigned", false, nil))
		}
	}
	out = append(out, decided("magic.sv#C13.csv_config", "csv.Reader is configured with exactly Comma, ReuseRecord, LazyQuotes, Comment (all other options default)", bad == 0, nil))
	return out
}

// scanAtomicGlobals: globals written through sync/atomic are never read or written directly.
func (p *Program) scanAtomicGlobals(decided decidedFn) []*Obligation {
	var out []*Obligation
	atomicG := map[*ssa.Global]bool{}
	for _, fn := range p.funcs {
		for _, b := range fn.Blocks {
			for _, ins := range b.Instrs {
				if c, ok := ins.(*ssa.Call); ok {
					if sc := c.Call.StaticCallee(); sc != nil && strings.HasPrefix(sc.String(), "sync/atomic.") && len(c.Call.Args) > 0 {
						if g, ok := c.Call.Args[0].(*ssa.Global); ok {
							atomicG[g] = true
						}
					}
				}
			}
		}
	}
	bad := 0
	for key, fn := range p.funcs {
		if fn.Name() == "init" {
			continue
		}
		for _, b := range fn.Blocks {
			for _, ins := range b.Instrs {
				switch x := ins.(type) {
				case *ssa.UnOp:
					if g, ok := x.X.(*ssa.Global); ok && atomicG[g] {
						bad++
						out = append(out, decided(fmt.Sprintf("%s#C06.atomic_only[%s]", key, g.Name()), "plain read of a variable that is accessed atomically elsewhere", false, ins))
					}
				case *ssa.Store:
					if g, ok := x.Addr.(*ssa.Global); ok && atomicG[g] {
						bad++
						out = append(out, decided(fmt.Sprintf("%s#C06.atomic_only[%s]", key, g.Name()), "plain write of a variable that is accessed atomically elsewhere", false, ins))
					}
				}
			}
		}
	}
	if len(atomicG) > 0 {
		out = append(out, decided("mimetype.readLimit#C06.atomic_only", "variables accessed through sync/atomic are never accessed directly outside initialisers", bad == 0, nil))
	}
	return out
}
