package main

// Program-level obligations decided by whole-program scans of the SSA.

import (
	"fmt"
	"go/types"
	"strings"

	"golang.org/x/tools/go/ssa"
)

func specFieldNames(e Expr, out map[string]bool) {
	switch n := e.(type) {
	case *EField:
		out[n.Name] = true
		specFieldNames(n.X, out)
	case *EBin:
		specFieldNames(n.X, out)
		specFieldNames(n.Y, out)
	case *EUn:
		specFieldNames(n.X, out)
	case *ECall:
		for _, a := range n.Args {
			specFieldNames(a, out)
		}
	case *EQuant:
		specFieldNames(n.Body, out)
	case *EOld:
		specFieldNames(n.X, out)
	case *EIndex:
		specFieldNames(n.X, out)
		specFieldNames(n.I, out)
	}
}

func (p *Program) programObligations(id string) []*Obligation {
	var out []*Obligation
	decided := func(name, desc string, ok bool, pos ssa.Instruction) *Obligation {
		o := &Obligation{Fn: name[:strings.Index(name, "#")], Kind: name[strings.Index(name, "#")+1:], Name: name, Desc: desc, Goal: "true", Decls: newDecls()}
		if !ok {
			o.Goal = "false"
			o.Result = &SolverResult{Status: "sat", Solver: "scan", All: map[string]string{"scan": "sat"}}
		} else {
			o.Trivial = true
			o.Result = &SolverResult{Status: "unsat", Solver: "scan"}
		}
		if pos != nil && pos.Pos().IsValid() {
			o.Pos = p.fset.Position(pos.Pos())
		}
		return o
	}
	if id == "C16" || id == "C04" {
		// pool type invariants are preserved: the fields they mention are stored to only by the constructor
		for _, pi := range p.spec.Pools {
			var g *ssa.Global
			var newFn *ssa.Function
			for fn, gg := range p.poolNew {
				if gg.Pkg.Pkg.Name()+"."+gg.Name() == pi.Global {
					g, newFn = gg, fn
				}
			}
			name := pi.Global + "#pool.preserved"
			if g == nil {
				out = append(out, decided(name, "pool with a declared invariant exists", false, nil))
				continue
			}
			pt, _ := p.poolTypes[g].(*types.Pointer)
			if pt == nil {
				out = append(out, decided(name, "pooled objects have a known pointer type", false, nil))
				continue
			}
			fields := map[string]bool{}
			specFieldNames(pi.E, fields)
			bad := 0
			for _, fn := range p.funcs {
				if fn == newFn {
					continue
				}
				for _, b := range fn.Blocks {
					for _, ins := range b.Instrs {
						st, ok := ins.(*ssa.Store)
						if !ok {
							continue
						}
						switch a := st.Addr.(type) {
						case *ssa.FieldAddr:
							if types.Identical(a.X.Type(), pt) {
								u := pt.Elem().Underlying().(*types.Struct)
								if fields[u.Field(a.Field).Name()] {
									bad++
									out = append(out, decided(fmt.Sprintf("%s#pool.preserved.store[%s]", pi.Global, p.keyOf(fn)),
										"store to a field constrained by the pool invariant outside the pool constructor: "+pi.Src, false, ins))
								}
							}
						default:
							// whole-struct store through a pointer to the pooled type: *p = T{...}
							if types.Identical(st.Addr.Type(), pt) {
								if _, isAlloc := st.Addr.(*ssa.Alloc); !isAlloc {
									bad++
									out = append(out, decided(fmt.Sprintf("%s#pool.preserved.store[%s]", pi.Global, p.keyOf(fn)),
										"whole-object store to a pooled object outside the pool constructor overwrites fields constrained by: "+pi.Src, false, ins))
								}
							}
						}
					}
				}
			}
			if bad == 0 {
				out = append(out, decided(name, "no instruction outside the pool constructor stores to a field mentioned in: "+pi.Src, true, nil))
			}
		}
	}
	return out
}
