package main

// Modular calls against callee contracts; frame (assigns) checking; lock ghost state.

import (
	"fmt"
	"go/types"
	"strings"

	"golang.org/x/tools/go/ssa"
)

func (f *frame) callContract(st *State, ins *ssa.Call, callee *ssa.Function, con *Contract, args []Val, free []Val) Val {
	ex := f.ex
	pre := st.clone()
	env := f.specEnvCall(callee, st, pre, args, free, nil)
	ord := "call.pre[?]"
	if ins != nil {
		ord = f.ord("call.pre", ins)
	}
	for _, c := range con.Requires {
		g := env.evalBool(c.E)
		if ex.mode.Functional || ex.mode.Safety {
			pos := callee.Pos()
			if ins != nil {
				pos = ins.Pos()
			}
			f.ob(st, fmt.Sprintf("%s.%s.%s", ord, shortKey(con.Key), c.Label), pos, g, "precondition of "+con.Key+": "+c.Src)
		}
		st.assume(g)
	}
	// termination of recursion: the callee's measure at the call must be below the caller's entry measure
	if top := ex.top; top != nil && top.con != nil && len(top.con.Decreases) > 0 && len(con.Decreases) > 0 && ex.prog.sameSCC(top.fn, callee) && !f.inlined {
		tenv := top.specEnv(top.entry, top.entry, nil)
		var oldM, newM []T
		for _, d := range top.con.Decreases {
			oldM = append(oldM, tenv.evalInt(d))
		}
		for _, d := range con.Decreases {
			newM = append(newM, env.evalInt(d))
		}
		if len(oldM) == len(newM) && (ex.mode.Functional || ex.mode.Safety) {
			pos := callee.Pos()
			if ins != nil {
				pos = ins.Pos()
			}
			f.ob(st, strings.Replace(ord, "call.pre", "decreases.call", 1)+"."+shortKey(con.Key), pos, lexLess(newM, oldM), "recursion measure decreases at call of "+con.Key)
		}
	}
	// havoc the callee's frame
	for _, a := range con.Assigns {
		f.havocLvalue(st, env, a, callee)
	}
	// results
	res := callee.Signature.Results()
	var results []Val
	for i := 0; i < res.Len(); i++ {
		results = append(results, ex.freshVal(st, sanitize(callee.Name())+"_res", res.At(i).Type(), false))
	}
	env2 := f.specEnvCall(callee, st, pre, args, free, results)
	if env2.vars == nil {
		env2.vars = map[string]Val{}
	}
	for _, c := range con.Ensures {
		st.assume(env2.evalBool(c.E))
	}
	ex.usedContracts[con.Key] = true
	return tupleOf(results)
}

func shortKey(k string) string {
	if i := strings.LastIndex(k, "."); i >= 0 {
		return sanitize(strings.TrimSuffix(k[i+1:], ")"))
	}
	return sanitize(k)
}

// havocLvalue gives a fresh value to an assignable location named by a contract expression.
func (f *frame) havocLvalue(st *State, env *specEnv, a Expr, callee *ssa.Function) {
	ex := f.ex
	switch n := a.(type) {
	case *EField:
		base := env.eval(n.X)
		switch b := base.(type) {
		case VRef:
			u := b.St.Underlying().(*types.Struct)
			for i := 0; i < u.NumFields(); i++ {
				if u.Field(i).Name() == n.Name {
					nv := ex.freshVal(st, "as_"+n.Name, u.Field(i).Type(), true)
					ex.heapStore(st, b.St, i, b.T, nv)
					return
				}
			}
		}
		panic("assigns: cannot havoc field " + exprString(a))
	case *EUn:
		if n.Op == "*" {
			p := env.eval(n.X)
			if cp, ok := p.(VCellPtr); ok {
				old := st.cells[cp.C]
				st.cells[cp.C] = f.havocLike(st, old, cp.C.typ, "as_"+cp.C.name)
				return
			}
		}
		panic("assigns: cannot havoc " + exprString(a))
	case *ECall:
		switch n.Fn {
		case "mem":
			s := env.eval(n.Args[0]).(VSlice)
			st.mem[s.R] = ex.freshMemLike(st.mem[s.R], "as_mem")
			return
		case "ghost":
			name := n.Args[0].(*EIdent).Name
			delete(st.ghost, name)
			return
		case "allfields":
			// every field of every object of the named struct type may change (used by tree mutators)
			tn := n.Args[0].(*EIdent).Name
			for hk, sorts := range ex.prog.heapSorts {
				if strings.Contains(hk, "."+tn+".") || strings.HasPrefix(hk, tn+".") {
					arr := make([]T, len(sorts))
					for ci, s := range sorts {
						arr[ci] = ex.decls.fresh("Ha_"+hk, s)
					}
					st.heap[hk] = arr
				}
			}
			return
		}
	case *EIdent:
		if m, ok := callee.Pkg.Members[n.Name]; ok {
			if g, ok := m.(*ssa.Global); ok {
				ex.prog.globalHavoc(ex, st, g)
				return
			}
		}
	}
	panic("assigns: unsupported lvalue " + exprString(a))
}

// frameCheckStore: a heap store inside a function under contract must target a location named in
// its assigns clause or a freshly allocated object.
func (f *frame) frameCheckStore(st *State, n *types.Named, field int, ref T, ins ssa.Instruction) {
	ex := f.ex
	top := f
	for top.inlined && top.caller != nil {
		top = top.caller
	}
	if top.con == nil || top != ex.top {
		return
	}
	u := n.Underlying().(*types.Struct)
	fname := u.Field(field).Name()
	var alts []T
	alts = append(alts, tLt(ex.heapTop(), ref)) // fresh object
	env := top.specEnv(st, top.entry, nil)
	env.inOld = false
	for _, a := range top.con.Assigns {
		if fe, ok := a.(*EField); ok && fe.Name == fname {
			saved := env.st
			env.st = top.entry
			b := env.eval(fe.X)
			env.st = saved
			if r, ok := b.(VRef); ok && namedKey(r.St) == namedKey(n) {
				alts = append(alts, tEq(r.T, ref))
			}
		}
		if ce, ok := a.(*ECall); ok && ce.Fn == "allfields" {
			if id, ok := ce.Args[0].(*EIdent); ok && id.Name == n.Obj().Name() {
				alts = append(alts, "true")
			}
		}
	}
	f.ob(st, f.ord("frame", ins), ins.Pos(), tOr(alts...), fmt.Sprintf("store to %s.%s is within the assigns clause or targets a fresh object", namedKey(n), fname))
}

func (f *frame) checkFrameAtReturn(st *State) {}

// ---------------------------------------------------------------------------
// Lock discipline (C06): accesses to fields of registered tree nodes require the lock.

func (f *frame) heldAtEntry() string {
	if f.con == nil {
		return "none"
	}
	for _, c := range f.con.Requires {
		if b, ok := c.E.(*ECall); ok && b.Fn == "held" && len(b.Args) == 1 {
			if id, ok := b.Args[0].(*EIdent); ok {
				return id.Name
			}
		}
	}
	return "none"
}

func (f *frame) lockAccess(st *State, b VRef, x *ssa.FieldAddr) {}

func (f *frame) lockAppend(st *State, ins *ssa.Call, s, e VSlice) {}

// ---------------------------------------------------------------------------

func (p *Program) sameSCC(a, b *ssa.Function) bool {
	return p.reaches(a, b, map[*ssa.Function]bool{}) && p.reaches(b, a, map[*ssa.Function]bool{})
}

func (p *Program) reaches(from, to *ssa.Function, seen map[*ssa.Function]bool) bool {
	if seen[from] {
		return false
	}
	seen[from] = true
	for _, b := range from.Blocks {
		for _, ins := range b.Instrs {
			var cc *ssa.CallCommon
			switch x := ins.(type) {
			case *ssa.Call:
				cc = &x.Call
			case *ssa.Defer:
				cc = &x.Call
			}
			if cc == nil {
				continue
			}
			if sc := cc.StaticCallee(); sc != nil && p.inRepo(sc) {
				if sc == to || p.reaches(sc, to, seen) {
					return true
				}
			}
		}
	}
	return false
}

// initValue: concrete initial value of an immutable global (filled in by init execution).
func (p *Program) initValue(ex *Exec, st *State, g *ssa.Global) (Val, bool) {
	if p.initVals == nil {
		return nil, false
	}
	iv, ok := p.initVals[g]
	if !ok {
		return nil, false
	}
	return iv(ex, st), true
}

// relational mode context (C17)
type relCtx struct{}

func (r *relCtx) setup(ex *Exec, st *State, f *frame)                     {}
func (r *relCtx) atReturn(ex *Exec, st *State, f *frame, vals []Val) {}
