package main

// Modular calls against callee contracts; frame (assigns) checking; lock ghost state.

import (
	"fmt"
	"go/types"
	"strings"

	"golang.org/x/tools/go/ssa"
)

func (f *frame) callContract(st *State, ins *ssa.Call, callee *ssa.Function, con *Contract, args []Val, free []Val) Val {
	ex := f.ex
	pre := st.clone()
	env := f.specEnvCall(callee, st, pre, args, free, nil)
	env.callPre = pre
	ord := "call.pre[?]"
	if ins != nil {
		ord = f.ord("call.pre", ins)
	}
	for _, c := range con.Requires {
		g := env.evalBool(c.E)
		if ex.mode.Functional || ex.mode.Safety {
			pos := callee.Pos()
			if ins != nil {
				pos = ins.Pos()
			}
			f.ob(st, fmt.Sprintf("%s.%s.%s", ord, shortKey(con.Key), c.Label), pos, g, "precondition of "+con.Key+": "+c.Src)
		}
		st.assume(g)
	}
	// termination of recursion: the callee's measure at the call must be below the caller's entry measure
	if top := ex.top; top != nil && top.con != nil && len(top.con.Decreases) > 0 && len(con.Decreases) > 0 && ex.prog.sameSCC(top.fn, callee) && !f.inlined {
		tenv := top.specEnv(top.entry, top.entry, nil)
		var oldM, newM []T
		for _, d := range top.con.Decreases {
			oldM = append(oldM, tenv.evalInt(d))
		}
		for _, d := range con.Decreases {
			newM = append(newM, env.evalInt(d))
		}
		if len(oldM) == len(newM) && (ex.mode.Functional || ex.mode.Safety) {
			pos := callee.Pos()
			if ins != nil {
				pos = ins.Pos()
			}
			f.ob(st, strings.Replace(ord, "call.pre", "decreases.call", 1)+"."+shortKey(con.Key), pos, lexLess(newM, oldM), "recursion measure decreases at call of "+con.Key)
		}
	}
	// havoc the callee's frame
	f.callFrame(st, pre, callee, con, env)
	{
		at := map[string]*types.Named{}
		ex.prog.allocTypes(callee, map[*ssa.Function]bool{}, at)
		if len(at) > 0 {
			fr := ex.decls.fresh("frontier_call", SInt)
			st.assume(tLe(ex.frontierOf(pre), fr))
			st.frontier = fr
		}
	}
	for _, a := range con.Assigns {
		f.havocLvalue(st, env, a, callee)
	}
	if ex.prog.reachesAtomicLoad(callee, map[*ssa.Function]bool{}) {
		// the callee samples atomically accessed variables: how often is up to its contract
		st.ghost["atomic_loads"] = VInt{ex.decls.fresh("gv_atomic_loads", SInt)}
	}
	// results
	res := callee.Signature.Results()
	var results []Val
	for i := 0; i < res.Len(); i++ {
		results = append(results, ex.freshVal(st, sanitize(callee.Name())+"_res", res.At(i).Type(), false))
	}
	if con.Pure && res.Len() == 1 {
		// a pure function is a function of its arguments: equal arguments give equal results
		var argT []T
		var sorts []string
		okPure := true
		for _, a := range args {
			switch v := a.(type) {
			case VInt:
				argT = append(argT, v.T)
				sorts = append(sorts, SInt)
			case VBool:
				argT = append(argT, v.T)
				sorts = append(sorts, SBool)
			case VSlice:
				argT = append(argT, st.mem[v.R][0], v.Off, v.Len)
				sorts = append(sorts, ex.sortOfTerm(st.mem[v.R][0]), SInt, SInt)
			default:
				okPure = false
			}
		}
		if okPure {
			switch r := results[0].(type) {
			case VInt:
				fn := ex.decls.fun("pure_"+sanitize(con.Key), sorts, SInt)
				st.assume(tEq(r.T, app(fn, argT...)))
			case VBool:
				fn := ex.decls.fun("pure_"+sanitize(con.Key), sorts, SBool)
				st.assume(tEq(r.T, app(fn, argT...)))
			}
		}
	}
	env2 := f.specEnvCall(callee, st, pre, args, free, results)
	if env2.vars == nil {
		env2.vars = map[string]Val{}
	}
	env2.callPre = pre
	for _, c := range con.Ensures {
		func() {
			defer func() {
				if r := recover(); r != nil {
					// a clause about the callee's internal ghost state cannot be used by the caller
					ex.note(fmt.Sprintf("clause of %s not usable at call site: %v", con.Key, r))
				}
			}()
			st.assume(env2.evalBool(c.E))
		}()
	}
	for _, c := range con.Defines {
		st.assume(env2.evalBool(c.E))
		ex.assumed["ghost predicate defined as the observable behaviour of "+con.Key+" (relies on its determinism): "+c.Src] = true
	}
	ex.usedContracts[con.Key] = true
	return tupleOf(results)
}

func shortKey(k string) string {
	if i := strings.LastIndex(k, "."); i >= 0 {
		return sanitize(strings.TrimSuffix(k[i+1:], ")"))
	}
	return sanitize(k)
}

// havocLvalue gives a fresh value to an assignable location named by a contract expression.
func (f *frame) havocLvalue(st *State, env *specEnv, a Expr, callee *ssa.Function) {
	ex := f.ex
	switch n := a.(type) {
	case *EField:
		base := env.eval(n.X)
		switch b := base.(type) {
		case VRef:
			u := b.St.Underlying().(*types.Struct)
			for i := 0; i < u.NumFields(); i++ {
				if u.Field(i).Name() == n.Name {
					nv := ex.freshVal(st, "as_"+n.Name, u.Field(i).Type(), true)
					ex.heapStore(st, b.St, i, b.T, nv)
					return
				}
			}
		}
		panic("assigns: cannot havoc field " + exprString(a))
	case *EUn:
		if n.Op == "*" {
			p := env.eval(n.X)
			if cp, ok := p.(VCellPtr); ok {
				old := st.cells[cp.C]
				st.cells[cp.C] = f.havocLike(st, old, cp.C.typ, "as_"+cp.C.name)
				return
			}
		}
		panic("assigns: cannot havoc " + exprString(a))
	case *ECall:
		switch n.Fn {
		case "mem":
			s := env.eval(n.Args[0]).(VSlice)
			st.mem[s.R] = ex.freshMemLike(st.mem[s.R], "as_mem")
			return
		case "ghost":
			name := n.Args[0].(*EIdent).Name
			if sort, ok := ex.prog.spec.GhostVars[name]; ok {
				st.ghost[name] = ex.freshGhost(st, name, sort)
				return
			}
			delete(st.ghost, name)
			return
		case "allfields":
			// every field of every object of the named struct type may change (used by tree mutators)
			tn := n.Args[0].(*EIdent).Name
			for hk, sorts := range ex.prog.heapSorts {
				if strings.Contains(hk, "."+tn+".") || strings.HasPrefix(hk, tn+".") {
					arr := make([]T, len(sorts))
					for ci, s := range sorts {
						arr[ci] = ex.decls.fresh("Ha_"+hk, s)
					}
					st.heap[hk] = arr
				}
			}
			return
		}
	case *EIdent:
		if m, ok := callee.Pkg.Members[n.Name]; ok {
			if g, ok := m.(*ssa.Global); ok {
				ex.prog.globalHavoc(ex, st, g)
				return
			}
		}
	}
	panic("assigns: unsupported lvalue " + exprString(a))
}

// frameCheckStore: a heap store inside a function under contract must target a location named in
// its assigns clause or a freshly allocated object.
func (f *frame) frameCheckStore(st *State, n *types.Named, field int, ref T, ins ssa.Instruction) {
	ex := f.ex
	if ex.initMode {
		return // package initialisation starts from the empty heap: every object is new
	}
	top := f
	for top.inlined && top.caller != nil {
		top = top.caller
	}
	if top.con == nil || top != ex.top {
		return
	}
	u := n.Underlying().(*types.Struct)
	fname := u.Field(field).Name()
	var alts []T
	alts = append(alts, tLt(ex.heapTop(), ref)) // fresh object
	env := top.specEnv(st, top.entry, nil)
	env.inOld = false
	for _, a := range top.con.Assigns {
		if fe, ok := a.(*EField); ok && fe.Name == fname {
			saved := env.st
			env.st = top.entry
			b := env.eval(fe.X)
			env.st = saved
			if r, ok := b.(VRef); ok && namedKey(r.St) == namedKey(n) {
				alts = append(alts, tEq(r.T, ref))
			}
		}
		if ce, ok := a.(*ECall); ok && ce.Fn == "allfields" {
			if id, ok := ce.Args[0].(*EIdent); ok && id.Name == n.Obj().Name() {
				alts = append(alts, "true")
			}
		}
	}
	f.ob(st, f.ord("frame", ins), ins.Pos(), tOr(alts...), fmt.Sprintf("store to %s.%s is within the assigns clause or targets a fresh object", namedKey(n), fname))
}

func (f *frame) checkFrameAtReturn(st *State) {}

// ---------------------------------------------------------------------------
// Lock discipline (C06): accesses to fields of registered tree nodes require the lock.

func (f *frame) heldAtEntry() string {
	if f.con == nil {
		return "none"
	}
	for _, c := range f.con.Requires {
		if b, ok := c.E.(*ECall); ok && b.Fn == "held" && len(b.Args) == 1 {
			if id, ok := b.Args[0].(*EIdent); ok {
				return id.Name
			}
		}
	}
	return "none"
}

func (f *frame) lockAccess(st *State, b VRef, x *ssa.FieldAddr) {}

// heldNow: the lock state on this path (none, R, W).
func (f *frame) heldNow(st *State) string {
	if g, ok := st.ghost["held"]; ok {
		return g.(VOpaque).T
	}
	top := f
	for top.caller != nil {
		top = top.caller
	}
	return top.heldAtEntry()
}

// guardedAccess: C06 lock discipline. A field declared `guarded` may be read only with the lock
// held (R or W) and written only with W held, unless the object was allocated in this call and
// is not yet published. A write must also happen in the critical section in which the field was
// last read on this path (no read - unlock - lock - write: lost updates).
func (f *frame) guardedAccess(st *State, n *types.Named, field int, ref T, write bool, ins ssa.Instruction) {
	ex := f.ex
	if !ex.mode.Functional || ins == nil || ex.initMode {
		return // during package initialisation nothing is published yet
	}
	u := n.Underlying().(*types.Struct)
	key := namedKey(n) + "." + u.Field(field).Name()
	if _, ok := ex.prog.spec.Guarded[key]; !ok {
		return
	}
	held := f.heldNow(st)
	freshObj := tLt(ex.heapTop(), ref)
	epoch := 0
	if g, ok := st.ghost["lock_epoch"]; ok {
		fmt.Sscan(g.(VOpaque).T, &epoch)
	}
	if !write {
		goal := freshObj
		if held == "R" || held == "W" {
			goal = "true"
		}
		f.ob(st, f.ord("lock.read", ins), ins.Pos(), goal, fmt.Sprintf("read of guarded field %s with the lock held (state %s) or on an unpublished object", key, held))
		st.ghost["guard_read:"+key] = VOpaque{T: fmt.Sprint(epoch)}
		return
	}
	goal := freshObj
	if held == "W" {
		goal = "true"
	}
	f.ob(st, f.ord("lock.write", ins), ins.Pos(), goal, fmt.Sprintf("write of guarded field %s with the write lock held (state %s) or on an unpublished object", key, held))
	if g, ok := st.ghost["guard_read:"+key]; ok {
		re := 0
		fmt.Sscan(g.(VOpaque).T, &re)
		ag := "true"
		if re != epoch {
			ag = freshObj
		}
		f.ob(st, f.ord("lock.atomic", ins), ins.Pos(), ag, fmt.Sprintf("guarded field %s is written in the critical section in which it was read (read-modify-write is atomic)", key))
	}
}

// lockAppend: append(s, ...) writes into s's backing array when len < cap. If that array is
// shared memory (not allocated in this call), the in-place case needs the write lock.
func (f *frame) lockAppend(st *State, ins *ssa.Call, s, e VSlice) {
	ex := f.ex
	if !ex.mode.Functional || ins == nil || ex.initMode {
		return
	}
	if !s.R.strict || s.R.fresh {
		return
	}
	if len(ex.prog.spec.Guarded) == 0 {
		return
	}
	top := f
	for top.caller != nil {
		top = top.caller
	}
	if top.fn.Pkg == nil || top.fn.Pkg.Pkg.Name() != "mimetype" {
		return
	}
	held := f.heldNow(st)
	goal := tOr(tEq(s.Len, s.Cap), tEq(e.Len, "0"))
	if held == "W" {
		goal = "true"
	}
	f.ob(st, f.ord("lock.append", ins), ins.Pos(), goal, "append to shared memory does not write in place (len == cap) unless the write lock is held (state "+held+")")
}

// ---------------------------------------------------------------------------

func (p *Program) sameSCC(a, b *ssa.Function) bool {
	return p.reaches(a, b, map[*ssa.Function]bool{}) && p.reaches(b, a, map[*ssa.Function]bool{})
}

func (p *Program) reaches(from, to *ssa.Function, seen map[*ssa.Function]bool) bool {
	if seen[from] {
		return false
	}
	seen[from] = true
	for _, b := range from.Blocks {
		for _, ins := range b.Instrs {
			var cc *ssa.CallCommon
			switch x := ins.(type) {
			case *ssa.Call:
				cc = &x.Call
			case *ssa.Defer:
				cc = &x.Call
			}
			if cc == nil {
				continue
			}
			if sc := cc.StaticCallee(); sc != nil && p.inRepo(sc) {
				if sc == to || p.reaches(sc, to, seen) {
					return true
				}
			}
		}
	}
	return false
}

// initValue: concrete initial value of an immutable global (filled in by init execution).
func (p *Program) initValue(ex *Exec, st *State, g *ssa.Global) (Val, bool) {
	if p.initVals == nil {
		return nil, false
	}
	iv, ok := p.initVals[g]
	if !ok {
		return nil, false
	}
	return iv(ex, st), true
}

// relational mode context (C17)
type relCtx struct{}

func (r *relCtx) setup(ex *Exec, st *State, f *frame)                {}
func (r *relCtx) atReturn(ex *Exec, st *State, f *frame, vals []Val) {}

// runGhost executes the ghost assignments of the function's contract at an anchor.
func (f *frame) runGhost(st *State, anchor string) {
	if f.con == nil || f.inlined {
		return
	}
	for _, g := range f.con.Ghosts {
		if g.Anchor != anchor {
			continue
		}
		env := f.specEnvInv(st)
		f.ghostAssign(st, env, g)
	}
}

func (f *frame) runGhostRet(st *State, vals []Val) {
	if f.con == nil || f.inlined {
		return
	}
	for _, g := range f.con.Ghosts {
		if g.Anchor != "return" {
			continue
		}
		env := f.specEnvInv(st)
		f.bindResults(env, f.fn, vals)
		f.ghostAssign(st, env, g)
	}
}

func (f *frame) ghostAssign(st *State, env *specEnv, g GhostStmt) {
	ex := f.ex
	var rhs Val
	ok := func() (ok bool) {
		defer func() {
			if r := recover(); r != nil {
				ok = false
			}
		}()
		rhs = env.eval(g.RHS)
		return true
	}()
	if !ok {
		return // the source variables of the ghost statement are not in scope on this path
	}
	switch l := g.LHS.(type) {
	case *EIdent:
		st.ghost[l.Name] = rhs
		return
	case *EField:
		base := env.eval(l.X)
		if r, ok := base.(VRef); ok {
			gk := namedKey(r.St) + ".$" + l.Name
			if ex.prog.heapSorts[gk] != nil {
				arr := ex.ghostArr(st, gk)
				var t T
				switch v := rhs.(type) {
				case VInt:
					t = v.T
				case VBool:
					t = v.T
				case VRef:
					t = v.T
				}
				st.heap[gk] = []T{tStore(arr, r.T, t)}
				return
			}
		}
	}
	panic("ghost assignment: unsupported lvalue in " + g.Src)
}

// entryFrame: objects that existed at function entry keep the values of every field the
// contract does not allow to be assigned. This is the frame rule: it is justified by the
// #frame obligation raised at every heap store of the same function (each store targets an
// assignable location or an object allocated during the call).
func (f *frame) entryFrame(st *State, hk string, arr []T) {
	ex := f.ex
	top := f
	for top.inlined && top.caller != nil {
		top = top.caller
	}
	if top.con == nil || top != ex.top || top.entry == nil {
		return
	}
	entryArr, ok := top.entry.heap[hk]
	if !ok {
		return
	}
	// exceptions: refs whose field of this name is in the assigns clause
	i := strings.LastIndex(hk, ".")
	fname := hk[i+1:]
	var exc []T
	env := top.specEnv(top.entry, top.entry, nil)
	for _, a := range top.con.Assigns {
		switch n := a.(type) {
		case *EField:
			if n.Name == fname {
				if r, ok := env.eval(n.X).(VRef); ok && strings.HasPrefix(hk, namedKey(r.St)+".") {
					exc = append(exc, r.T)
				}
			}
		case *ECall:
			if n.Fn == "allfields" {
				if id, ok := n.Args[0].(*EIdent); ok && strings.Contains(hk, "."+id.Name+".") {
					return
				}
			}
		}
	}
	q := "fr_" + sanitize(arr[0])
	cond := []T{tLt("0", q), tLe(q, ex.heapTop())}
	for _, e := range exc {
		cond = append(cond, tNe(q, e))
	}
	var eqs []T
	for ci := range arr {
		eqs = append(eqs, tEq(tSel(arr[ci], q), tSel(entryArr[ci], q)))
	}
	st.assume(tForall(q, tImp(tAnd(cond...), tAnd(eqs...))))
}

// allocTypes: heap struct types that fn (or its in-repo callees) may allocate.
// reachesAtomicLoad: fn or an in-repo function it statically calls reads a variable through sync/atomic.
func (p *Program) reachesAtomicLoad(fn *ssa.Function, seen map[*ssa.Function]bool) bool {
	if seen[fn] {
		return false
	}
	seen[fn] = true
	for _, b := range fn.Blocks {
		for _, ins := range b.Instrs {
			var cc *ssa.CallCommon
			switch x := ins.(type) {
			case *ssa.Call:
				cc = &x.Call
			case *ssa.Defer:
				cc = &x.Call
			case *ssa.Go:
				cc = &x.Call
			}
			if cc == nil {
				continue
			}
			if sc := cc.StaticCallee(); sc != nil {
				if strings.HasPrefix(sc.String(), "sync/atomic.Load") {
					return true
				}
				if p.inRepo(sc) && p.reachesAtomicLoad(sc, seen) {
					return true
				}
			}
		}
	}
	return false
}

func (p *Program) allocTypes(fn *ssa.Function, seen map[*ssa.Function]bool, out map[string]*types.Named) {
	if seen[fn] {
		return
	}
	seen[fn] = true
	for _, b := range fn.Blocks {
		for _, ins := range b.Instrs {
			switch x := ins.(type) {
			case *ssa.Alloc:
				if n, ok := heapStructName(x.Type().(*types.Pointer).Elem()); ok && x.Heap && p.heapModelled(n) {
					out[namedKey(n)] = n
				}
			case *ssa.Call:
				if sc := x.Call.StaticCallee(); sc != nil && p.inRepo(sc) {
					p.allocTypes(sc, seen, out)
				}
			}
		}
	}
}

// callFrame: after a modular call, fields of objects that existed before the call and are not
// in the callee's assigns clause are unchanged; objects the callee allocated are arbitrary.
func (f *frame) callFrame(st *State, pre *State, callee *ssa.Function, con *Contract, env *specEnv) {
	ex := f.ex
	types_ := map[string]*types.Named{}
	ex.prog.allocTypes(callee, map[*ssa.Function]bool{}, types_)
	for tk, n := range types_ {
		u := n.Underlying().(*types.Struct)
		var keys []string
		for i := 0; i < u.NumFields(); i++ {
			keys = append(keys, tk+"."+u.Field(i).Name())
		}
		for hk := range ex.prog.heapSorts {
			if strings.HasPrefix(hk, tk+".$") {
				keys = append(keys, hk)
			}
		}
		for _, hk := range keys {
			sorts := ex.prog.heapSorts[hk]
			if sorts == nil {
				continue
			}
			// make sure the pre-state array exists
			var old []T
			if a, ok := st.heap[hk]; ok {
				old = a
			} else {
				for ci, s := range sorts {
					old = append(old, ex.decls.named(fmt.Sprintf("H0_%s_%d", hk, ci), s))
				}
				if strings.Contains(hk, ".$") {
					old = []T{ex.decls.named("H0_"+hk, sorts[0])}
				}
			}
			arr := make([]T, len(sorts))
			for ci, s := range sorts {
				arr[ci] = ex.decls.fresh("Hc_"+hk, s)
			}
			i := strings.LastIndex(hk, ".")
			fname := hk[i+1:]
			var exc []T
			skip := false
			for _, a := range con.Assigns {
				switch an := a.(type) {
				case *EField:
					if an.Name == fname {
						if r, ok := env.eval(an.X).(VRef); ok && namedKey(r.St) == tk {
							exc = append(exc, r.T)
						}
					}
				case *ECall:
					if an.Fn == "allfields" {
						skip = true
					}
				}
			}
			st.heap[hk] = arr
			if skip {
				continue
			}
			q := "cf_" + sanitize(arr[0])
			cond := []T{tAnd(tLt("0", q), tLe(q, ex.frontierOf(pre)))}
			for _, e := range exc {
				cond = append(cond, tNe(q, e))
			}
			var eqs []T
			for ci := range arr {
				eqs = append(eqs, tEq(tSel(arr[ci], q), tSel(old[ci], q)))
			}
			st.assume(tForall(q, tImp(tAnd(cond...), tAnd(eqs...))))
		}
	}
}

// runGhostAfterCall executes ghost statements anchored `after <callee>`; $ret0, $ret1, ... name
// the results of the call.
func (f *frame) runGhostAfterCall(st *State, c *ssa.Call, res Val) {
	if f.con == nil || f.inlined || len(f.con.Ghosts) == 0 || st.dead {
		return
	}
	sc := c.Call.StaticCallee()
	if sc == nil {
		return
	}
	anchor := "after " + sc.Name()
	for _, g := range f.con.Ghosts {
		if g.Anchor != anchor {
			continue
		}
		env := f.specEnvInv(st)
		switch r := res.(type) {
		case VTuple:
			for i, e := range r.E {
				env.vars[fmt.Sprintf("$ret%d", i)] = e
			}
		default:
			env.vars["$ret0"] = res
		}
		f.ghostAssign(st, env, g)
	}
}
