package main

import (
	"fmt"
	"os"
	"strings"

	"golang.org/x/tools/go/packages"
	"golang.org/x/tools/go/ssa"
	"golang.org/x/tools/go/ssa/ssautil"
)

func main() {
	cfg := &packages.Config{Mode: packages.LoadAllSyntax, Dir: "/repo", BuildFlags: []string{"-tags=verif"}}
	pkgs, err := packages.Load(cfg, "./...")
	if err != nil {
		panic(err)
	}
	mode := ssa.BuilderMode(0)
	if os.Getenv("NAIVE") != "" {
		mode |= ssa.NaiveForm
	}
	prog, spkgs := ssautil.Packages(pkgs, mode)
	_ = prog
	for _, p := range spkgs {
		if p == nil {
			continue
		}
		p.Build()
		for _, m := range p.Members {
			if fn, ok := m.(*ssa.Function); ok {
				dump(fn)
			}
		}
	}
}
func dump(fn *ssa.Function) {
	for _, want := range os.Args[1:] {
		if strings.Contains(fn.String(), want) {
			fn.WriteTo(os.Stdout)
			fmt.Println()
		}
	}
	for _, a := range fn.AnonFuncs {
		dump(a)
	}
}
