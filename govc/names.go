package main

import (
	"encoding/json"
	"os"
	"path/filepath"
	"sort"

	"golang.org/x/tools/go/ssa"
)

// Contracts name parameters, results and locals of the functions they annotate. A change that
// merely renames one of them keeps every property but would leave the contract unreadable
// ("unknown name"), i.e. raise a false alarm. baseline_names.json records, per contracted
// function, the names in order as they were on the unchanged tree (written together with the
// baseline, never at check time); when the current names differ, old names are mapped to the
// new ones by position (parameters, results) or by an order-preserving alignment (locals).

type fnNames struct {
	Params  []string `json:"params"`
	Results []string `json:"results"`
	Locals  []string `json:"locals"`
	Loops   int      `json:"loops"`
}

func namesOf(fn *ssa.Function) fnNames {
	var n fnNames
	for _, p := range fn.Params {
		n.Params = append(n.Params, p.Name())
	}
	res := fn.Signature.Results()
	for i := 0; i < res.Len(); i++ {
		n.Results = append(n.Results, res.At(i).Name())
	}
	seen := map[string]bool{}
	for _, l := range fn.Locals {
		if l.Comment == "" || seen[l.Comment] {
			continue
		}
		seen[l.Comment] = true
		n.Locals = append(n.Locals, l.Comment)
	}
	n.Loops = -1
	return n
}

func namesFile() string { return filepath.Join(verifRoot, "baseline_names.json") }

func (p *Program) writeNames() {
	out := map[string]fnNames{}
	for k := range p.contracts {
		if fn := p.funcs[k]; fn != nil {
			nm := namesOf(fn)
			nm.Loops = len(p.loopsOf(fn))
			out[k] = nm
		}
	}
	data, _ := json.MarshalIndent(out, "", " ")
	os.WriteFile(namesFile(), data, 0o644)
}

// loadRenames builds, per function, old name -> current name for names that no longer exist.
func (p *Program) loadRenames() {
	p.renames = map[string]map[string]string{}
	data, err := os.ReadFile(namesFile())
	if err != nil {
		return
	}
	rec := map[string]fnNames{}
	if json.Unmarshal(data, &rec) != nil {
		return
	}
	p.baseLoops = map[string]int{}
	for k, old := range rec {
		fn := p.funcs[k]
		if fn == nil {
			continue
		}
		p.baseLoops[k] = old.Loops
		cur := namesOf(fn)
		m := map[string]string{}
		have := map[string]bool{}
		for _, l := range [][]string{cur.Params, cur.Results, cur.Locals} {
			for _, s := range l {
				have[s] = true
			}
		}
		positional := func(a, b []string) {
			if len(a) != len(b) {
				return
			}
			for i := range a {
				if a[i] != b[i] && a[i] != "" && b[i] != "" && !have[a[i]] {
					m[a[i]] = b[i]
				}
			}
		}
		positional(old.Params, cur.Params)
		positional(old.Results, cur.Results)
		alignLocals(old.Locals, cur.Locals, have, m)
		if len(m) > 0 {
			p.renames[k] = m
			var ks []string
			for a, b := range m {
				ks = append(ks, a+"->"+b)
			}
			sort.Strings(ks)
			p.renameNotes = append(p.renameNotes, k+": "+joinStrings(ks, ", "))
		}
	}
	sort.Strings(p.renameNotes)
}

func joinStrings(s []string, sep string) string {
	out := ""
	for i, x := range s {
		if i > 0 {
			out += sep
		}
		out += x
	}
	return out
}

// alignLocals: longest common subsequence of the two name lists; between two matched names,
// a gap with the same number of old and new names is a positional renaming.
func alignLocals(a, b []string, have map[string]bool, m map[string]string) {
	n, k := len(a), len(b)
	l := make([][]int, n+1)
	for i := range l {
		l[i] = make([]int, k+1)
	}
	for i := n - 1; i >= 0; i-- {
		for j := k - 1; j >= 0; j-- {
			if a[i] == b[j] {
				l[i][j] = l[i+1][j+1] + 1
			} else if l[i+1][j] >= l[i][j+1] {
				l[i][j] = l[i+1][j]
			} else {
				l[i][j] = l[i][j+1]
			}
		}
	}
	i, j := 0, 0
	var ga, gb []string
	flush := func() {
		if len(ga) == len(gb) {
			for x := range ga {
				if !have[ga[x]] {
					m[ga[x]] = gb[x]
				}
			}
		}
		ga, gb = nil, nil
	}
	for i < n && j < k {
		switch {
		case a[i] == b[j]:
			flush()
			i++
			j++
		case l[i+1][j] >= l[i][j+1]:
			ga = append(ga, a[i])
			i++
		default:
			gb = append(gb, b[j])
			j++
		}
	}
	ga = append(ga, a[i:]...)
	gb = append(gb, b[j:]...)
	flush()
}
