package main

import (
	"fmt"

	"golang.org/x/tools/go/ssa"
)

// runInits executes the package initialisers of the packages fn depends on (dependencies
// first) on the concrete empty state, so that immutable package-level tables and closures
// have their real values. Globals that are stored to anywhere outside initialisers are
// forgotten afterwards (they are arbitrary at function entry). The root package's tree is
// not imported here: functions over the tree are verified against the tree invariant.
func (ex *Exec) runInits(st *State, fn *ssa.Function) {
	if ex.noInits {
		return
	}
	top := fn
	for top.Parent() != nil {
		top = top.Parent()
	}
	if top.Pkg == nil {
		return
	}
	order := ex.prog.initOrder(top.Pkg)
	savedMode := ex.mode
	ex.mode = ExecMode{}
	ex.initMode = true
	defer func() { ex.mode = savedMode; ex.initMode = false }()
	for _, pkg := range order {
		if pkg.Pkg.Name() == "mimetype" {
			continue // the tree is not imported: tree functions are verified against TI
		}
		initFn := pkg.Func("init")
		if initFn == nil || initFn.Blocks == nil || initFn == top {
			continue
		}
		nf := ex.newFrame(initFn, nil)
		nf.inlined = true
		var rets []retPath
		nf.rets = &rets
		work := st.clone()
		nf.entry = work
		ex.execBlock(nf, work, initFn.Blocks[0], nil)
		if len(rets) != 1 || ex.aborted != "" {
			ex.note(fmt.Sprintf("init of %s not executed concretely (%d paths, %s): its globals are arbitrary", pkg.Pkg.Name(), len(rets), ex.aborted))
			ex.aborted = ""
			continue
		}
		*st = *rets[0].st
		st.defers = nil
	}
	if ex.initRefs > 0 {
		st.assume(tLe(num(int64(ex.initRefs)), ex.heapTop()))
	}
	for g, n := range ex.prog.stores {
		if n > 0 {
			delete(st.cells, ex.gcell(g))
		}
	}
	ex.obs = nil
	ex.covers = nil
	ex.paths = 0
	ex.inlinedFns = map[string]bool{}
}

func (p *Program) initOrder(pkg *ssa.Package) []*ssa.Package {
	var out []*ssa.Package
	seen := map[*ssa.Package]bool{}
	var visit func(sp *ssa.Package)
	visit = func(sp *ssa.Package) {
		if seen[sp] {
			return
		}
		seen[sp] = true
		for _, imp := range sp.Pkg.Imports() {
			for _, rp := range p.pkgs {
				if rp.Pkg == imp {
					visit(rp)
				}
			}
		}
		out = append(out, sp)
	}
	visit(pkg)
	return out
}
