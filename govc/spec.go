package main

// Contract files (comment-only Go files behind the `verif` build tag) and the
// contract expression language.
//
//   //@ func <key>                      key as printed by govc list, e.g. json.(*parserState).consumeArray
//   //@   requires [label] <expr>
//   //@   ensures  [label] <expr>
//   //@   assigns  <lvalue>, <lvalue> ...
//   //@   decreases <expr>, <expr>
//   //@   loop <k> invariant [label] <expr>
//   //@   loop <k> decreases <expr>, ...
//   //@   loop <k> unroll
//   //@   inline | pure
//   //@ spec <name>(<params>) = <expr>
//   //@ lemma <name>: <expr>            (closed formula, proved without code)
//   //@ axiom <name>: <expr>            (assumed; listed in evidence)
//   //@ pool <global> invariant <expr>  (type invariant of pooled objects; `p` is the object)

import (
	"fmt"
	"os"
	"path/filepath"
	"strconv"
	"strings"
)

type Clause struct {
	Label string
	E     Expr
	Src   string
}

type LoopSpec struct {
	Invariants []Clause
	Decreases  []Expr
	Unroll     bool
	Assumes    []Clause // assumed at the loop head without proof; listed as assumptions
	Terminates string   // non-empty: termination assumed, with this reason
}

type Contract struct {
	Key       string
	Requires  []Clause
	Ensures   []Clause
	Assigns   []Expr
	Decreases []Expr
	Loops     map[int]*LoopSpec
	Inline    bool
	Pure      bool
	File      string
	Line      int
	Uses      []string    // axioms / proved lemmas assumed (universally quantified) at entry
	Assumes   []Clause    // function-level assumptions (spec definitions / axioms), listed in evidence
	Defines   []Clause    // ghost predicates defined as the function's observable behaviour: assumed at call sites, not checked
	Ghosts    []GhostStmt // ghost assignments at anchors
}

// GhostStmt: `ghost <anchor>: <lvalue> = <expr>`; anchors: entry, return, loop <k> end
type GhostStmt struct {
	Anchor string
	LHS    Expr
	RHS    Expr
	Src    string
}

type SpecFunc struct {
	Name   string
	Params []string
	Body   Expr
	Pkg    string
}

type Lemma struct {
	Name  string
	E     Expr
	Src   string
	Axiom bool
	Pkg   string
	Vars  []string // typed variables: "m bytes", "n int"
	Uses  []string
	Ind   string // induction variable ("" = none)
}

type PoolInv struct {
	Global string
	E      Expr
	Src    string
}

type SpecFile struct {
	Contracts   map[string]*Contract
	Specs       map[string]*SpecFunc
	Lemmas      []*Lemma
	Pools       []*PoolInv
	UFuns       map[string]*UFun
	GhostFields map[string]string // "Type.field" -> sort
	GhostVars   map[string]string // pkg.name -> sort (ghost variables, arbitrary at function entry)
	Guarded     map[string]string // "pkg.Type.field" -> lock name: accesses need the lock unless the object is fresh
}

// ---------------------------------------------------------------------------
// Expression AST

type Expr interface{}

type EInt struct{ V string }
type EBool struct{ V bool }
type EStr struct{ V string }
type EIdent struct{ Name string }
type EUn struct {
	Op string
	X  Expr
}
type EBin struct {
	Op   string
	X, Y Expr
}
type EIndex struct{ X, I Expr }
type ESlice struct{ X, Lo, Hi Expr }
type EField struct {
	X    Expr
	Name string
}
type ECall struct {
	Fn   string
	Args []Expr
}
type EQuant struct {
	Forall bool
	Var    string
	Body   Expr
}
type EOld struct{ X Expr }

// ---------------------------------------------------------------------------
// Lexer

type tok struct {
	kind string // int, ident, str, char, op, eof
	val  string
}

func lexSpec(s string) ([]tok, error) {
	var out []tok
	i := 0
	ops := []string{"<==>", "==>", "::", "==", "!=", "<=", ">=", "&&", "||", "<<", ">>", "+", "-", "*", "/", "%", "<", ">", "!", "(", ")", "[", "]", ":", ",", ".", "&", "|", "="}
	for i < len(s) {
		c := s[i]
		switch {
		case c == ' ' || c == '\t':
			i++
		case c >= '0' && c <= '9':
			j := i
			if c == '0' && i+1 < len(s) && (s[i+1] == 'x' || s[i+1] == 'X') {
				j = i + 2
				for j < len(s) && strings.ContainsRune("0123456789abcdefABCDEF_", rune(s[j])) {
					j++
				}
			} else {
				for j < len(s) && (s[j] >= '0' && s[j] <= '9' || s[j] == '_') {
					j++
				}
			}
			v, err := strconv.ParseInt(strings.ReplaceAll(s[i:j], "_", ""), 0, 64)
			if err != nil {
				u, err2 := strconv.ParseUint(strings.ReplaceAll(s[i:j], "_", ""), 0, 64)
				if err2 != nil {
					return nil, err
				}
				out = append(out, tok{"int", strconv.FormatUint(u, 10)})
			} else {
				out = append(out, tok{"int", strconv.FormatInt(v, 10)})
			}
			i = j
		case c == '_' || c == '$' || c >= 'a' && c <= 'z' || c >= 'A' && c <= 'Z':
			j := i
			for j < len(s) && (s[j] == '_' || s[j] == '$' || s[j] >= 'a' && s[j] <= 'z' || s[j] >= 'A' && s[j] <= 'Z' || s[j] >= '0' && s[j] <= '9') {
				j++
			}
			out = append(out, tok{"ident", s[i:j]})
			i = j
		case c == '\'':
			j := i + 1
			for j < len(s) && s[j] != '\'' {
				if s[j] == '\\' {
					j++
				}
				j++
			}
			v, _, _, err := strconv.UnquoteChar(s[i+1:j], '\'')
			if err != nil {
				return nil, fmt.Errorf("bad char literal %s", s[i:j+1])
			}
			out = append(out, tok{"int", strconv.Itoa(int(v))})
			i = j + 1
		case c == '"':
			j := i + 1
			for j < len(s) && s[j] != '"' {
				if s[j] == '\\' {
					j++
				}
				j++
			}
			v, err := strconv.Unquote(s[i : j+1])
			if err != nil {
				return nil, fmt.Errorf("bad string literal %s", s[i:j+1])
			}
			out = append(out, tok{"str", v})
			i = j + 1
		default:
			matched := false
			for _, op := range ops {
				if strings.HasPrefix(s[i:], op) {
					out = append(out, tok{"op", op})
					i += len(op)
					matched = true
					break
				}
			}
			if !matched {
				return nil, fmt.Errorf("unexpected character %q in %q", c, s)
			}
		}
	}
	out = append(out, tok{"eof", ""})
	return out, nil
}

type sparser struct {
	toks []tok
	p    int
	src  string
}

func (p *sparser) peek() tok { return p.toks[p.p] }
func (p *sparser) next() tok { t := p.toks[p.p]; p.p++; return t }
func (p *sparser) isOp(s string) bool {
	t := p.peek()
	return t.kind == "op" && t.val == s
}
func (p *sparser) expectOp(s string) {
	if !p.isOp(s) {
		panic(fmt.Sprintf("spec parse: expected %q at token %d (%v) in %q", s, p.p, p.peek(), p.src))
	}
	p.p++
}

func parseSpecExpr(s string) (e Expr, err error) {
	toks, err := lexSpec(s)
	if err != nil {
		return nil, err
	}
	p := &sparser{toks: toks, src: s}
	defer func() {
		if r := recover(); r != nil {
			err = fmt.Errorf("%v", r)
		}
	}()
	e = p.expr()
	if p.peek().kind != "eof" {
		return nil, fmt.Errorf("spec parse: trailing tokens at %d (%v) in %q", p.p, p.peek(), s)
	}
	return e, nil
}

func (p *sparser) expr() Expr {
	t := p.peek()
	if t.kind == "ident" && (t.val == "forall" || t.val == "exists") {
		p.next()
		v := p.next()
		if v.kind != "ident" {
			panic("quantifier variable expected in " + p.src)
		}
		if p.peek().kind == "ident" { // optional type
			p.next()
		}
		p.expectOp("::")
		body := p.expr()
		return &EQuant{Forall: t.val == "forall", Var: v.val, Body: body}
	}
	return p.iff()
}
func (p *sparser) iff() Expr {
	x := p.implies()
	for p.isOp("<==>") {
		p.next()
		y := p.implies()
		x = &EBin{"<==>", x, y}
	}
	return x
}
func (p *sparser) implies() Expr {
	x := p.or()
	if p.isOp("==>") {
		p.next()
		var y Expr
		t := p.peek()
		if t.kind == "ident" && (t.val == "forall" || t.val == "exists") {
			y = p.expr()
		} else {
			y = p.implies()
		}
		return &EBin{"==>", x, y}
	}
	return x
}
func (p *sparser) or() Expr {
	x := p.and()
	for p.isOp("||") {
		p.next()
		x = &EBin{"||", x, p.and()}
	}
	return x
}
func (p *sparser) and() Expr {
	x := p.cmp()
	for p.isOp("&&") {
		p.next()
		t := p.peek()
		if t.kind == "ident" && (t.val == "forall" || t.val == "exists") {
			x = &EBin{"&&", x, p.expr()}
			return x
		}
		x = &EBin{"&&", x, p.cmp()}
	}
	return x
}
func isCmp(s string) bool {
	switch s {
	case "==", "!=", "<", "<=", ">", ">=":
		return true
	}
	return false
}
func (p *sparser) cmp() Expr {
	x := p.add()
	var res Expr
	for p.peek().kind == "op" && isCmp(p.peek().val) {
		op := p.next().val
		y := p.add()
		c := &EBin{op, x, y}
		if res == nil {
			res = c
		} else {
			res = &EBin{"&&", res, c}
		}
		x = y
	}
	if res != nil {
		return res
	}
	return x
}
func (p *sparser) add() Expr {
	x := p.mul()
	for p.isOp("+") || p.isOp("-") {
		op := p.next().val
		x = &EBin{op, x, p.mul()}
	}
	return x
}
func (p *sparser) mul() Expr {
	x := p.unary()
	for p.isOp("*") || p.isOp("/") || p.isOp("%") {
		op := p.next().val
		x = &EBin{op, x, p.unary()}
	}
	return x
}
func (p *sparser) unary() Expr {
	if p.isOp("!") {
		p.next()
		return &EUn{"!", p.unary()}
	}
	if p.isOp("-") {
		p.next()
		return &EUn{"-", p.unary()}
	}
	if p.isOp("*") {
		p.next()
		return &EUn{"*", p.unary()}
	}
	return p.postfix()
}
func (p *sparser) postfix() Expr {
	x := p.primary()
	for {
		switch {
		case p.isOp("["):
			p.next()
			var lo, hi Expr
			if p.isOp(":") {
				p.next()
				if !p.isOp("]") {
					hi = p.expr()
				}
				p.expectOp("]")
				x = &ESlice{x, nil, hi}
				continue
			}
			lo = p.expr()
			if p.isOp(":") {
				p.next()
				if !p.isOp("]") {
					hi = p.expr()
				}
				p.expectOp("]")
				x = &ESlice{x, lo, hi}
				continue
			}
			p.expectOp("]")
			x = &EIndex{x, lo}
		case p.isOp("."):
			p.next()
			n := p.next()
			if n.kind != "ident" {
				panic("field name expected in " + p.src)
			}
			x = &EField{x, n.val}
		default:
			return x
		}
	}
}
func (p *sparser) primary() Expr {
	t := p.next()
	switch t.kind {
	case "int":
		return &EInt{t.val}
	case "str":
		return &EStr{t.val}
	case "ident":
		switch t.val {
		case "true":
			return &EBool{true}
		case "false":
			return &EBool{false}
		}
		if p.isOp("(") {
			p.next()
			var args []Expr
			for !p.isOp(")") {
				args = append(args, p.expr())
				if p.isOp(",") {
					p.next()
				}
			}
			p.expectOp(")")
			if t.val == "old" {
				if len(args) != 1 {
					panic("old takes one argument")
				}
				return &EOld{args[0]}
			}
			return &ECall{t.val, args}
		}
		return &EIdent{t.val}
	case "op":
		if t.val == "(" {
			e := p.expr()
			p.expectOp(")")
			return e
		}
	}
	panic(fmt.Sprintf("spec parse: unexpected token %v in %q", t, p.src))
}

// ---------------------------------------------------------------------------
// Contract file parser

func parseLabel(s string) (string, string) {
	s = strings.TrimSpace(s)
	if strings.HasPrefix(s, "[") {
		if i := strings.Index(s, "]"); i > 0 {
			return strings.TrimSpace(s[1:i]), strings.TrimSpace(s[i+1:])
		}
	}
	return "", s
}

func splitTopComma(s string) []string {
	var out []string
	depth := 0
	start := 0
	for i := 0; i < len(s); i++ {
		switch s[i] {
		case '(', '[':
			depth++
		case ')', ']':
			depth--
		case ',':
			if depth == 0 {
				out = append(out, strings.TrimSpace(s[start:i]))
				start = i + 1
			}
		}
	}
	if strings.TrimSpace(s[start:]) != "" {
		out = append(out, strings.TrimSpace(s[start:]))
	}
	return out
}

func loadSpecFiles(root string) (*SpecFile, []string, error) {
	sf := &SpecFile{Contracts: map[string]*Contract{}, Specs: map[string]*SpecFunc{}, UFuns: map[string]*UFun{}, GhostFields: map[string]string{}, GhostVars: map[string]string{}, Guarded: map[string]string{}}
	var files []string
	err := filepath.Walk(root, func(path string, info os.FileInfo, err error) error {
		if err != nil {
			return err
		}
		if info.IsDir() && (info.Name() == ".git" || info.Name() == "testdata") {
			return filepath.SkipDir
		}
		if !info.IsDir() && info.Name() == "contracts_verif.go" {
			files = append(files, path)
		}
		return nil
	})
	if err != nil {
		return nil, nil, err
	}
	for _, file := range files {
		data, err := os.ReadFile(file)
		if err != nil {
			return nil, nil, err
		}
		pkg := ""
		var cur *Contract
		lines := strings.Split(string(data), "\n")
		// join continuation lines: a line `//@ ...` followed by `//@+ ...`
		for ln := 0; ln < len(lines); ln++ {
			line := strings.TrimSpace(lines[ln])
			if strings.HasPrefix(line, "package ") {
				pkg = strings.TrimSpace(strings.TrimPrefix(line, "package "))
				continue
			}
			if !strings.HasPrefix(line, "//@") {
				continue
			}
			body := strings.TrimSpace(line[3:])
			for ln+1 < len(lines) && strings.HasPrefix(strings.TrimSpace(lines[ln+1]), "//@+") {
				ln++
				body += " " + strings.TrimSpace(strings.TrimSpace(lines[ln])[4:])
			}
			if i := strings.Index(body, " //"); i >= 0 && !strings.Contains(body[:i], "\"") {
				body = strings.TrimSpace(body[:i])
			}
			if body == "" {
				continue
			}
			where := fmt.Sprintf("%s:%d", file, ln+1)
			word, rest := body, ""
			if i := strings.IndexAny(body, " \t"); i > 0 {
				word, rest = body[:i], strings.TrimSpace(body[i+1:])
			}
			mk := func(s string) (Clause, error) {
				lab, src := parseLabel(s)
				e, err := parseSpecExpr(src)
				if err != nil {
					return Clause{}, fmt.Errorf("%s: %v", where, err)
				}
				return Clause{lab, e, src}, nil
			}
			switch word {
			case "func":
				cur = &Contract{Key: rest, Loops: map[int]*LoopSpec{}, File: file, Line: ln + 1}
				if _, dup := sf.Contracts[rest]; dup {
					return nil, nil, fmt.Errorf("%s: duplicate contract for %s", where, rest)
				}
				sf.Contracts[rest] = cur
			case "requires", "ensures":
				if cur == nil {
					return nil, nil, fmt.Errorf("%s: clause outside func", where)
				}
				c, err := mk(rest)
				if err != nil {
					return nil, nil, err
				}
				if word == "requires" {
					if c.Label == "" {
						c.Label = strconv.Itoa(len(cur.Requires) + 1)
					}
					cur.Requires = append(cur.Requires, c)
				} else {
					if c.Label == "" {
						c.Label = strconv.Itoa(len(cur.Ensures) + 1)
					}
					cur.Ensures = append(cur.Ensures, c)
				}
			case "assigns":
				for _, a := range splitTopComma(rest) {
					e, err := parseSpecExpr(a)
					if err != nil {
						return nil, nil, fmt.Errorf("%s: %v", where, err)
					}
					cur.Assigns = append(cur.Assigns, e)
				}
			case "decreases":
				for _, a := range splitTopComma(rest) {
					e, err := parseSpecExpr(a)
					if err != nil {
						return nil, nil, fmt.Errorf("%s: %v", where, err)
					}
					cur.Decreases = append(cur.Decreases, e)
				}
			case "uses":
				if cur == nil {
					return nil, nil, fmt.Errorf("%s: clause outside func", where)
				}
				cur.Uses = append(cur.Uses, splitTopComma(rest)...)
			case "defines":
				if cur == nil {
					return nil, nil, fmt.Errorf("%s: clause outside func", where)
				}
				c, err := mk(rest)
				if err != nil {
					return nil, nil, err
				}
				cur.Defines = append(cur.Defines, c)
			case "assume":
				if cur == nil {
					return nil, nil, fmt.Errorf("%s: clause outside func", where)
				}
				c, err := mk(rest)
				if err != nil {
					return nil, nil, err
				}
				cur.Assumes = append(cur.Assumes, c)
			case "ghost":
				// ghost <anchor>: lhs = rhs      (inside a func block)
				i := strings.Index(rest, ":")
				j := strings.Index(rest, "=")
				if cur == nil || i < 0 || j < i {
					return nil, nil, fmt.Errorf("%s: bad ghost statement", where)
				}
				// find the assignment '=' that is not part of ==, <=, >=, !=
				k := -1
				body := rest[i+1:]
				for x := 0; x < len(body); x++ {
					if body[x] == '=' && (x+1 >= len(body) || body[x+1] != '=') && (x == 0 || !strings.ContainsRune("=<>!", rune(body[x-1]))) {
						k = x
						break
					}
				}
				if k < 0 {
					return nil, nil, fmt.Errorf("%s: bad ghost statement", where)
				}
				lhs, err := parseSpecExpr(strings.TrimSpace(body[:k]))
				if err != nil {
					return nil, nil, fmt.Errorf("%s: %v", where, err)
				}
				rhs, err := parseSpecExpr(strings.TrimSpace(body[k+1:]))
				if err != nil {
					return nil, nil, fmt.Errorf("%s: %v", where, err)
				}
				cur.Ghosts = append(cur.Ghosts, GhostStmt{Anchor: strings.TrimSpace(rest[:i]), LHS: lhs, RHS: rhs, Src: rest})
			case "ghostfun":
				// ghostfun name(int, bytes, ...) bool|int
				i := strings.Index(rest, "(")
				j := strings.LastIndex(rest, ")")
				if i < 0 || j < i {
					return nil, nil, fmt.Errorf("%s: bad ghostfun", where)
				}
				uf := &UFun{Name: strings.TrimSpace(rest[:i])}
				for _, a := range splitTopComma(rest[i+1 : j]) {
					switch a {
					case "int":
						uf.ArgSorts = append(uf.ArgSorts, SInt)
					case "bool":
						uf.ArgSorts = append(uf.ArgSorts, SBool)
					case "bytes":
						uf.ArgSorts = append(uf.ArgSorts, SBytes, SInt, SInt)
					default:
						return nil, nil, fmt.Errorf("%s: bad ghostfun argument sort %q", where, a)
					}
				}
				uf.Ret = SInt
				if strings.TrimSpace(rest[j+1:]) == "bool" {
					uf.Ret = SBool
				}
				sf.UFuns[uf.Name] = uf
				cur = nil
			case "guarded":
				// guarded Type.field by lock
				parts := strings.Fields(rest)
				if len(parts) != 3 || parts[1] != "by" {
					return nil, nil, fmt.Errorf("%s: bad guarded clause", where)
				}
				sf.Guarded[pkg+"."+parts[0]] = parts[2]
				cur = nil
			case "ghostvar":
				parts := strings.Fields(rest)
				if len(parts) != 2 {
					return nil, nil, fmt.Errorf("%s: bad ghostvar", where)
				}
				sort := SInt
				if parts[1] == "bool" {
					sort = SBool
				}
				if parts[1] == "bytes" {
					sort = SBytes
				}
				sf.GhostVars[parts[0]] = sort
				cur = nil
			case "ghostfield":
				parts := strings.Fields(rest)
				if len(parts) != 2 {
					return nil, nil, fmt.Errorf("%s: bad ghostfield", where)
				}
				sort := SInt
				if parts[1] == "bool" {
					sort = SBool
				}
				sf.GhostFields[pkg+"."+parts[0]] = sort
				cur = nil
			case "inline":
				cur.Inline = true
			case "pure":
				cur.Pure = true
			case "loop":
				parts := strings.SplitN(rest, " ", 3)
				k, err := strconv.Atoi(parts[0])
				if err != nil || len(parts) < 2 {
					return nil, nil, fmt.Errorf("%s: bad loop clause", where)
				}
				ls := cur.Loops[k]
				if ls == nil {
					ls = &LoopSpec{}
					cur.Loops[k] = ls
				}
				arg := ""
				if len(parts) == 3 {
					arg = parts[2]
				}
				switch parts[1] {
				case "invariant":
					c, err := mk(arg)
					if err != nil {
						return nil, nil, err
					}
					if c.Label == "" {
						c.Label = strconv.Itoa(len(ls.Invariants) + 1)
					}
					ls.Invariants = append(ls.Invariants, c)
				case "decreases":
					for _, a := range splitTopComma(arg) {
						e, err := parseSpecExpr(a)
						if err != nil {
							return nil, nil, fmt.Errorf("%s: %v", where, err)
						}
						ls.Decreases = append(ls.Decreases, e)
					}
				case "unroll":
					ls.Unroll = true
				case "assume":
					c, err := mk(arg)
					if err != nil {
						return nil, nil, err
					}
					ls.Assumes = append(ls.Assumes, c)
				case "terminates":
					ls.Terminates = arg
				default:
					return nil, nil, fmt.Errorf("%s: bad loop clause %q", where, parts[1])
				}
			case "spec":
				// spec name(a, b) = expr
				i := strings.Index(rest, "(")
				j := strings.Index(rest, ")")
				k := strings.Index(rest, "=")
				if i < 0 || j < i || k < j {
					return nil, nil, fmt.Errorf("%s: bad spec definition", where)
				}
				name := strings.TrimSpace(rest[:i])
				var params []string
				for _, p := range splitTopComma(rest[i+1 : j]) {
					params = append(params, strings.Fields(p)[0])
				}
				e, err := parseSpecExpr(strings.TrimSpace(rest[k+1:]))
				if err != nil {
					return nil, nil, fmt.Errorf("%s: %v", where, err)
				}
				sf.Specs[name] = &SpecFunc{Name: name, Params: params, Body: e, Pkg: pkg}
				cur = nil
			case "lemma", "axiom":
				i := strings.Index(rest, ":")
				if i < 0 {
					return nil, nil, fmt.Errorf("%s: bad lemma", where)
				}
				// the colon that ends the head is the first one outside parentheses
				depth := 0
				i = -1
				for x := 0; x < len(rest); x++ {
					switch rest[x] {
					case '(':
						depth++
					case ')':
						depth--
					case ':':
						if depth == 0 && i < 0 {
							i = x
						}
					}
				}
				if i < 0 {
					return nil, nil, fmt.Errorf("%s: bad lemma", where)
				}
				head := strings.TrimSpace(rest[:i])
				l := &Lemma{Axiom: word == "axiom", Pkg: pkg}
				if j := strings.Index(head, "("); j >= 0 {
					l.Name = strings.TrimSpace(head[:j])
					k := strings.Index(head, ")")
					for _, p := range splitTopComma(head[j+1 : k]) {
						l.Vars = append(l.Vars, p)
					}
					tail := strings.Fields(strings.ReplaceAll(head[k+1:], ",", " "))
					mode := ""
					for _, w := range tail {
						switch w {
						case "induction", "use":
							mode = w
						default:
							if mode == "induction" {
								l.Ind = w
							} else if mode == "use" {
								l.Uses = append(l.Uses, w)
							}
						}
					}
				} else {
					l.Name = head
				}
				l.Src = strings.TrimSpace(rest[i+1:])
				e, err := parseSpecExpr(l.Src)
				if err != nil {
					return nil, nil, fmt.Errorf("%s: %v", where, err)
				}
				l.E = e
				sf.Lemmas = append(sf.Lemmas, l)
				cur = nil
			case "pool":
				parts := strings.SplitN(rest, " ", 3)
				if len(parts) != 3 || parts[1] != "invariant" {
					return nil, nil, fmt.Errorf("%s: bad pool clause", where)
				}
				e, err := parseSpecExpr(parts[2])
				if err != nil {
					return nil, nil, fmt.Errorf("%s: %v", where, err)
				}
				sf.Pools = append(sf.Pools, &PoolInv{Global: pkg + "." + parts[0], E: e, Src: parts[2]})
			default:
				return nil, nil, fmt.Errorf("%s: unknown contract keyword %q", where, word)
			}
		}
	}
	return sf, files, nil
}
