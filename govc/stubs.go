package main

func cmdCheck(args []string) int    { return 2 }
func cmdReplay(args []string) int   { return 2 }
func cmdSelftest(args []string) int { return 2 }

type inputShow struct{ Name, Show string }

func extractInputs(o *Obligation) []inputShow { return nil }
