package main

// Assumed-contract table for library functions (never counted as proved; every entry used on
// some path is echoed in the evidence under `assumptions`).

import (
	"fmt"
	"go/types"
	"math/big"

	"golang.org/x/tools/go/ssa"
)

type model func(f *frame, st *State, ins *ssa.Call, args []Val) Val

var models map[string]model

func init() {
	models = map[string]model{
		"bytes.HasPrefix":                       mHasPrefix,
		"bytes.Equal":                           mEqual,
		"bytes.Index":                           mIndex,
		"bytes.IndexByte":                       mIndexByte,
		"bytes.Contains":                        mContains,
		"bytes.Cut":                             mCut,
		"bytes.Trim":                            mTrim,
		"bytes.TrimSpace":                       mTrimSpace,
		"strings.HasPrefix":                     mHasPrefix,
		"strings.Index":                         mIndex,
		"strings.IndexRune":                     mIndexRune,
		"strings.IndexAny":                      mIndexAny,
		"strings.TrimLeft":                      mTrimLeft,
		"bytes.TrimLeft":                        mTrimLeft,
		"strings.ToLower":                       mToLower,
		"(encoding/binary.littleEndian).Uint32": func(f *frame, st *State, ins *ssa.Call, a []Val) Val { return mUint(f, st, ins, a, 4, false) },
		"(encoding/binary.littleEndian).Uint16": func(f *frame, st *State, ins *ssa.Call, a []Val) Val { return mUint(f, st, ins, a, 2, false) },
		"(encoding/binary.bigEndian).Uint32":    func(f *frame, st *State, ins *ssa.Call, a []Val) Val { return mUint(f, st, ins, a, 4, true) },
		"(encoding/binary.bigEndian).Uint16":    func(f *frame, st *State, ins *ssa.Call, a []Val) Val { return mUint(f, st, ins, a, 2, true) },
		"unicode/utf8.RuneStart": func(f *frame, st *State, ins *ssa.Call, a []Val) Val {
			b := a[0].(VInt).T
			return VBool{tOr(tLt(b, "128"), tGe(b, "192"))}
		},
		"unicode/utf8.Valid": func(f *frame, st *State, ins *ssa.Call, a []Val) Val {
			s := a[0].(VSlice)
			return VBool{app(f.ex.validUTF8Fn(), st.mem[s.R][0], s.Off, s.Len)}
		},
		"(*sync.Pool).Get":        mPoolGet,
		"(*sync.Pool).Put":        mPoolPut,
		"(*sync.RWMutex).RLock":   func(f *frame, st *State, ins *ssa.Call, a []Val) Val { return f.lockOp(st, ins, "none", "R") },
		"(*sync.RWMutex).RUnlock": func(f *frame, st *State, ins *ssa.Call, a []Val) Val { return f.lockOp(st, ins, "R", "none") },
		"(*sync.RWMutex).Lock":    func(f *frame, st *State, ins *ssa.Call, a []Val) Val { return f.lockOp(st, ins, "none", "W") },
		"(*sync.RWMutex).Unlock":  func(f *frame, st *State, ins *ssa.Call, a []Val) Val { return f.lockOp(st, ins, "W", "none") },
		"sync/atomic.LoadUint32":  mAtomicLoad,
		"sync/atomic.StoreUint32": mAtomicStore,
		"bytes.NewReader": func(f *frame, st *State, ins *ssa.Call, a []Val) Val {
			return VOpaque{f.ex.decls.fresh("bytesReader", SInt), ins.Type()}
		},
	}
}

func (f *frame) quant() bool { return f.ex.mode.Functional || f.ex.relQuant }

func bytesOf(st *State, v Val) (VSlice, T) {
	s := v.(VSlice)
	return s, st.mem[s.R][0]
}

func mHasPrefix(f *frame, st *State, ins *ssa.Call, args []Val) Val {
	s, ms := bytesOf(st, args[0])
	p, mp := bytesOf(st, args[1])
	if !p.HasLit && !f.quant() {
		// safety-only mode: the result is an unconstrained boolean
		return VBool{f.ex.decls.fresh("hasPrefix", SBool)}
	}
	r := f.ex.decls.fresh("hasPrefix", SBool)
	st.assume(tEq(r, prefixTerm(f.ex, ms, s, mp, p)))
	return VBool{r}
}

func mEqual(f *frame, st *State, ins *ssa.Call, args []Val) Val {
	a := args[0].(VSlice)
	b := args[1].(VSlice)
	if !a.HasLit && !b.HasLit && !f.quant() {
		return VBool{f.ex.decls.fresh("equal", SBool)}
	}
	r := f.ex.decls.fresh("equal", SBool)
	st.assume(tEq(r, seqEqTerms(f.ex, st, a, b)))
	return VBool{r}
}

// matchAt: sep occurs in s at position k (k is a term). Addresses are idx(off, k+j) so that
// quantified specifications over the same slice see the same terms.
func matchAt(ex *Exec, ms T, s VSlice, mp T, p VSlice, k T) T {
	if p.HasLit {
		cs := []T{tLe(num(int64(len(p.Lit))), tSub(s.Len, k))}
		for j, c := range p.Lit {
			cs = append(cs, tEq(tSel(ms, tIdx(s.Off, tAdd(k, num(int64(j))))), num(int64(c))))
		}
		return tAnd(cs...)
	}
	q := ex.decls.fresh("ma_q", SInt)
	return tAnd(tLe(p.Len, tSub(s.Len, k)), tForall(q, tImp(tAnd(tLe("0", q), tLt(q, p.Len)),
		tEq(tSel(ms, tIdx(s.Off, tAdd(k, q))), tSel(mp, tIdx(p.Off, q))))))
}

func indexModel(f *frame, st *State, s VSlice, ms T, p VSlice, mp T, hint string) T {
	ex := f.ex
	r := ex.decls.fresh(hint, SInt)
	st.assume(tLe(num(-1), r))
	st.assume(tLe(r, tSub(s.Len, p.Len)))
	st.assume(tImp(tEq(p.Len, "0"), tEq(r, "0")))
	st.assume(tImp(tLt(s.Len, p.Len), tEq(r, num(-1))))
	if p.HasLit || f.quant() {
		st.assume(tImp(tGe(r, "0"), matchAt(ex, ms, s, mp, p, r)))
	}
	if f.quant() {
		q := "ix_" + r
		st.assume(tForall(q, tImp(tAnd(tLe("0", q), tOr(tLt(q, r), tAnd(tEq(r, num(-1)), tLe(q, tSub(s.Len, p.Len))))),
			tNot(matchAt(ex, ms, s, mp, p, q)))))
	}
	return r
}

func mIndex(f *frame, st *State, ins *ssa.Call, args []Val) Val {
	s, ms := bytesOf(st, args[0])
	p, mp := bytesOf(st, args[1])
	return VInt{indexModel(f, st, s, ms, p, mp, "index")}
}

func mIndexByte(f *frame, st *State, ins *ssa.Call, args []Val) Val {
	s, ms := bytesOf(st, args[0])
	c := args[1].(VInt).T
	ex := f.ex
	r := ex.decls.fresh("indexByte", SInt)
	st.assume(tLe(num(-1), r))
	st.assume(tLt(r, tIte(tLt(s.Len, "1"), "0", s.Len)))
	st.assume(tImp(tGe(r, "0"), tEq(tSel(ms, tIdx(s.Off, r)), c)))
	if f.quant() {
		q := "ib_" + r
		st.assume(tForall(q, tImp(tAnd(tLe("0", q), tOr(tLt(q, r), tAnd(tEq(r, num(-1)), tLt(q, s.Len)))),
			tNe(tSel(ms, tIdx(s.Off, q)), c))))
	}
	return VInt{r}
}

func mContains(f *frame, st *State, ins *ssa.Call, args []Val) Val {
	s, ms := bytesOf(st, args[0])
	p, mp := bytesOf(st, args[1])
	r := indexModel(f, st, s, ms, p, mp, "contains_ix")
	return VBool{tGe(r, "0")}
}

func mCut(f *frame, st *State, ins *ssa.Call, args []Val) Val {
	s, ms := bytesOf(st, args[0])
	p, mp := bytesOf(st, args[1])
	i := indexModel(f, st, s, ms, p, mp, "cut_ix")
	found := tGe(i, "0")
	before := VSlice{R: s.R, Elem: s.Elem, Off: s.Off, Len: tIte(found, i, s.Len), Cap: tIte(found, tSub(s.Cap, "0"), s.Cap)}
	// bytes.Cut returns s[:i] (cap unchanged) and s[i+len(sep):]
	skip := tAdd(i, p.Len)
	// not found: after is nil; as an empty view it is placed at the end of s
	after := VSlice{R: s.R, Elem: s.Elem, Off: tIte(found, tAdd(s.Off, skip), tAdd(s.Off, s.Len)), Len: tIte(found, tSub(s.Len, skip), "0"), Cap: tIte(found, tSub(s.Cap, skip), "0")}
	return VTuple{[]Val{before, after, VBool{found}}}
}

func inSet(b T, set []byte) T {
	var alts []T
	for _, c := range set {
		alts = append(alts, tEq(b, num(int64(c))))
	}
	return tOr(alts...)
}

func trimModel(f *frame, st *State, s VSlice, ms T, set []byte, left, right bool, hint string) Val {
	ex := f.ex
	i := T("0")
	j := s.Len
	if left {
		i = ex.decls.fresh(hint+"_lo", SInt)
	}
	if right {
		j = ex.decls.fresh(hint+"_hi", SInt)
	}
	st.assume(tAnd(tLe("0", i), tLe(i, j), tLe(j, s.Len)))
	if set != nil {
		// ends are not in the cut set (when the result is non-empty)
		if left {
			st.assume(tImp(tLt(i, j), tNot(inSet(tSel(ms, tIdx(s.Off, i)), set))))
		}
		if right {
			st.assume(tImp(tLt(i, j), tNot(inSet(tSel(ms, tIdx(s.Off, tSub(j, "1"))), set))))
		}
		if f.quant() {
			q := "tr_" + sanitize(i+j)
			st.assume(tForall(q, tImp(tAnd(tLe("0", q), tLt(q, s.Len), tOr(tLt(q, i), tGe(q, j))), inSet(tSel(ms, tIdx(s.Off, q)), set))))
		}
	}
	return VSlice{R: s.R, Elem: s.Elem, Off: tAdd(s.Off, i), Len: tSub(j, i), Cap: tSub(s.Cap, i), Str: s.Str}
}

func mTrim(f *frame, st *State, ins *ssa.Call, args []Val) Val {
	s, ms := bytesOf(st, args[0])
	set := args[1].(VSlice)
	if !set.HasLit {
		return trimModel(f, st, s, ms, nil, true, true, "trim")
	}
	return trimModel(f, st, s, ms, set.Lit, true, true, "trim")
}

func mTrimSpace(f *frame, st *State, ins *ssa.Call, args []Val) Val {
	s, ms := bytesOf(st, args[0])
	f.ex.assumed["bytes.TrimSpace modelled for ASCII white space only (non-ASCII Unicode spaces abstracted)"] = true
	return f.ex.trimSpaceOf(st, ms, s, true)
}

// trimSpaceOf: bytes.TrimSpace as a deterministic function of its argument (so that contracts
// can name the same result): bounds are uninterpreted functions of (mem, off, len), constrained
// to be the maximal trim of ASCII white space.
func (ex *Exec) trimSpaceOf(st *State, ms T, s VSlice, facts bool) VSlice {
	lo := app(ex.decls.fun("trimsp_lo", []string{SBytes, SInt, SInt}, SInt), ms, s.Off, s.Len)
	hi := app(ex.decls.fun("trimsp_hi", []string{SBytes, SInt, SInt}, SInt), ms, s.Off, s.Len)
	set := []byte{' ', '\t', '\n', '\v', '\f', '\r'}
	if facts {
		st.assume(tAnd(tLe("0", lo), tLe(lo, hi), tLe(hi, s.Len)))
		st.assume(tImp(tLt(lo, hi), tNot(inSet(tSel(ms, tIdx(s.Off, lo)), set))))
		st.assume(tImp(tLt(lo, hi), tNot(inSet(tSel(ms, tIdx(s.Off, tSub(hi, "1"))), set))))
	}
	return VSlice{R: s.R, Elem: s.Elem, Off: tAdd(s.Off, lo), Len: tSub(hi, lo), Cap: tSub(s.Cap, lo), Str: s.Str}
}

func mTrimLeft(f *frame, st *State, ins *ssa.Call, args []Val) Val {
	s, ms := bytesOf(st, args[0])
	set := args[1].(VSlice)
	if !set.HasLit {
		return trimModel(f, st, s, ms, nil, true, false, "trimleft")
	}
	return trimModel(f, st, s, ms, set.Lit, true, false, "trimleft")
}

func mIndexRune(f *frame, st *State, ins *ssa.Call, args []Val) Val {
	// only used with ASCII quote runes: behaves as IndexByte
	return mIndexByte(f, st, ins, args)
}

func mIndexAny(f *frame, st *State, ins *ssa.Call, args []Val) Val {
	s, ms := bytesOf(st, args[0])
	set := args[1].(VSlice)
	ex := f.ex
	r := ex.decls.fresh("indexAny", SInt)
	st.assume(tLe(num(-1), r))
	st.assume(tLt(r, tIte(tLt(s.Len, "1"), "0", s.Len)))
	if set.HasLit {
		st.assume(tImp(tGe(r, "0"), inSet(tSel(ms, tIdx(s.Off, r)), set.Lit)))
		if f.quant() {
			q := "ia_" + r
			st.assume(tForall(q, tImp(tAnd(tLe("0", q), tOr(tLt(q, r), tAnd(tEq(r, num(-1)), tLt(q, s.Len)))),
				tNot(inSet(tSel(ms, tIdx(s.Off, q)), set.Lit)))))
		}
	}
	return VInt{r}
}

// ufView: a byte view that is an uninterpreted function of another view (memory, offset, length)
func (ex *Exec) ufView(st *State, name string, ms T, s VSlice, str bool) VSlice {
	fm := ex.decls.fun(name+"_mem", []string{SBytes, SInt, SInt}, SBytes)
	fl := ex.decls.fun(name+"_len", []string{SBytes, SInt, SInt}, SInt)
	r := ex.newRegion(name, false, true)
	st.mem[r] = []T{app(fm, ms, s.Off, s.Len)}
	ln := app(fl, ms, s.Off, s.Len)
	return VSlice{R: r, Elem: byteType, Off: "0", Len: ln, Cap: ln, Str: str}
}

func mToLower(f *frame, st *State, ins *ssa.Call, args []Val) Val {
	s, ms := bytesOf(st, args[0])
	ex := f.ex
	r := ex.ufView(st, "lowerOf", ms, s, true)
	st.assume(tAnd(tLe("0", r.Len), tLe(r.Len, two48)))
	r.R.fresh = true
	ex.assumed["strings.ToLower: length preserved and bytes lower-cased for ASCII input (non-ASCII abstracted)"] = true
	if f.quant() {
		mr := st.mem[r.R][0]
		q := "tl_" + sanitize(r.Len)
		b := tSel(ms, tIdx(s.Off, q))
		asciiAll := tForall(q+"a", tImp(tAnd(tLe("0", q+"a"), tLt(q+"a", s.Len)), tLt(tSel(ms, tIdx(s.Off, q+"a")), "128")))
		st.assume(tImp(asciiAll, tAnd(tEq(r.Len, s.Len), tForall(q, tImp(tAnd(tLe("0", q), tLt(q, s.Len)),
			tEq(tSel(mr, tIdx(r.Off, q)), tIte(tAnd(tLe("65", b), tLe(b, "90")), tAdd(b, "32"), b)))))))
	}
	return r
}

func mUint(f *frame, st *State, ins *ssa.Call, args []Val, n int, big_ bool) Val {
	ex := f.ex
	s, ms := bytesOf(st, args[len(args)-1])
	if ex.mode.Safety && ins != nil {
		f.ob(st, f.ord("call.pre", ins)+".binary.len", ins.Pos(), tLe(num(int64(n)), s.Len), fmt.Sprintf("encoding/binary: slice shorter than %d bytes (library would panic)", n))
	}
	st.assume(tLe(num(int64(n)), s.Len))
	res := T("0")
	for i := 0; i < n; i++ {
		b := tSel(ms, tIdx(s.Off, num(int64(i))))
		st.assume(tAnd(tLe("0", b), tLe(b, "255")))
		sh := uint(8 * i)
		if big_ {
			sh = uint(8 * (n - 1 - i))
		}
		res = tAdd(res, tMul(b, numBig(new(big.Int).Lsh(bigOne, sh))))
	}
	d := ex.decls.fresh("uint", SInt)
	st.assume(tEq(d, res))
	return VInt{d}
}

// ---------------------------------------------------------------------------
// sync.Pool, RWMutex, atomics (ghost state)

func mPoolGet(f *frame, st *State, ins *ssa.Call, args []Val) Val {
	ex := f.ex
	g, _ := args[0].(VGlobalPtr)
	var dyn types.Type
	if g.G != nil {
		dyn = ex.prog.poolTypes[g.G]
	}
	if dyn == nil {
		ex.note("abstracted: sync.Pool.Get on unknown pool in " + f.key)
		return VIface{ID: ex.decls.fresh("poolobj", SInt)}
	}
	obj := ex.freshVal(st, "pooled", dyn, true)
	if r, ok := obj.(VRef); ok {
		st.assume(tLt("0", r.T))
		// the object is exclusively owned: its fields are arbitrary except for the pool's type invariant
		for _, pi := range ex.prog.spec.Pools {
			if pi.Global == g.G.Pkg.Pkg.Name()+"."+g.G.Name() {
				env := f.baseEnv(st, st)
				env.vars["p"] = r
				env.pkg = g.G.Pkg
				st.assume(env.evalBool(pi.E))
				ex.assumed["pool type invariant (established by New, preserved: checked by store scan): "+pi.Global+": "+pi.Src] = true
			}
		}
		st.ghost["owned:"+r.T] = VBool{"true"}
	}
	return VIface{Dyn: dyn, V: obj, ID: ex.decls.fresh("poolobj", SInt)}
}

func mPoolPut(f *frame, st *State, ins *ssa.Call, args []Val) Val {
	if iv, ok := args[1].(VIface); ok {
		if r, ok := iv.V.(VRef); ok {
			delete(st.ghost, "owned:"+r.T)
			st.ghost["released:"+r.T] = VBool{"true"}
		}
	}
	return VTuple{}
}

func (f *frame) lockOp(st *State, ins *ssa.Call, from, to string) Val {
	cur := f.heldNow(st)
	if f.ex.mode.Functional && ins != nil {
		goal := "false"
		if cur == from {
			goal = "true"
		}
		f.ob(st, f.ord("lock", ins), ins.Pos(), goal, fmt.Sprintf("lock protocol: %s requires lock state %s, have %s", to, from, cur))
	}
	st.ghost["held"] = VOpaque{T: to}
	if to != "none" {
		// a new critical section begins
		epoch := 0
		if g, ok := st.ghost["lock_epoch"]; ok {
			fmt.Sscan(g.(VOpaque).T, &epoch)
		}
		st.ghost["lock_epoch"] = VOpaque{T: fmt.Sprint(epoch + 1)}
	}
	return VTuple{}
}

func mAtomicLoad(f *frame, st *State, ins *ssa.Call, args []Val) Val {
	// every atomic read is counted: a detection that samples the limit more than once may see two
	// different values when SetLimit runs concurrently, so the sequential proof would not carry over
	if c, ok := st.ghost["atomic_loads"].(VInt); ok {
		st.ghost["atomic_loads"] = VInt{tAdd(c.T, "1")}
	}
	if g, ok := args[0].(VGlobalPtr); ok {
		return f.ex.prog.globalLoad(f.ex, st, g.G)
	}
	return f.ex.freshVal(st, "atomic", types.Typ[types.Uint32], true)
}

func mAtomicStore(f *frame, st *State, ins *ssa.Call, args []Val) Val {
	if g, ok := args[0].(VGlobalPtr); ok {
		f.ex.prog.globalStore(f.ex, st, g.G, args[1])
	}
	return VTuple{}
}

// ---------------------------------------------------------------------------
// io / os (C05). Contracts from the package documentation.

func (ex *Exec) extGlobal(st *State, pkgPath, name string) Val {
	for _, sp := range ex.prog.prog.AllPackages() {
		if sp.Pkg.Path() == pkgPath {
			if g, ok := sp.Members[name].(*ssa.Global); ok {
				return ex.prog.globalLoad(ex, st, g)
			}
		}
	}
	panic("no global " + pkgPath + "." + name)
}

func errID(v Val) T {
	switch e := v.(type) {
	case VIface:
		return e.ID
	}
	return "0"
}

func init() {
	models["io.ReadFull"] = func(f *frame, st *State, ins *ssa.Call, a []Val) Val {
		ex := f.ex
		buf := a[1].(VSlice)
		n := ex.decls.fresh("readfull_n", SInt)
		err := ex.decls.fresh("readfull_err", SInt)
		eof := errID(ex.extGlobal(st, "io", "EOF"))
		ueof := errID(ex.extGlobal(st, "io", "ErrUnexpectedEOF"))
		st.assume(tAnd(tLe("0", n), tLe(n, buf.Len)))
		st.assume(tLe("0", err))
		// distinct sentinel values
		st.assume(tAnd(tNe(eof, "0"), tNe(ueof, "0"), tNe(eof, ueof)))
		st.assume(tEq(tEq(n, buf.Len), tEq(err, "0")))
		st.assume(tImp(tEq(err, eof), tEq(n, "0")))
		st.assume(tImp(tEq(err, ueof), tAnd(tLt("0", n), tLt(n, buf.Len))))
		if !buf.R.input {
			st.mem[buf.R] = ex.freshMemLike(st.mem[buf.R], "readfull_buf")
		}
		f.readerConsume(st, a[0], n, err)
		// reader_want: how many bytes this call asked the reader for (the length of the buffer)
		st.ghost["reader_want"] = VInt{buf.Len}
		return VTuple{[]Val{VInt{n}, VIface{ID: err}}}
	}
	models["io.ReadAll"] = func(f *frame, st *State, ins *ssa.Call, a []Val) Val {
		ex := f.ex
		out := ex.freshSlice(st, "readall", types.Typ[types.Uint8], false, false)
		out.R.fresh = true
		err := ex.decls.fresh("readall_err", SInt)
		st.assume(tLe("0", err))
		// io.ReadAll: "A successful call returns err == nil, not err == EOF"
		st.assume(tNe(err, errID(ex.extGlobal(st, "io", "EOF"))))
		st.assume(tNe(err, errID(ex.extGlobal(st, "io", "ErrUnexpectedEOF"))))
		f.readerConsume(st, a[0], out.Len, err)
		return VTuple{[]Val{out, VIface{ID: err}}}
	}
	models["os.Open"] = func(f *frame, st *State, ins *ssa.Call, a []Val) Val {
		ex := f.ex
		file := ex.decls.fresh("file", SInt)
		err := ex.decls.fresh("open_err", SInt)
		st.assume(tAnd(tLe("0", file), tLe("0", err)))
		st.assume(tEq(tEq(err, "0"), tNot(tEq(file, "0"))))
		return VTuple{[]Val{VOpaque{file, ins.Type().(*types.Tuple).At(0).Type()}, VIface{ID: err}}}
	}
	models["(*os.File).Close"] = func(f *frame, st *State, ins *ssa.Call, a []Val) Val {
		return VIface{ID: f.ex.decls.fresh("close_err", SInt)}
	}
}

// readerConsume records in ghost state how many bytes were taken from a reader (C05).
func (f *frame) readerConsume(st *State, r Val, n T, err T) {
	used := T("0")
	if g, ok := st.ghost["reader_used"]; ok {
		used = g.(VInt).T
	}
	st.ghost["reader_used"] = VInt{tAdd(used, n)}
	st.ghost["reader_err"] = VInt{err}
	st.ghost["reader_n"] = VInt{n}
}

// utf8.FullRune: exact finite-case formula over the first three bytes (RFC 3629 tables as in
// unicode/utf8: invalid lead bytes count as complete one-byte error runes).
func init() {
	models["unicode/utf8.FullRune"] = func(f *frame, st *State, ins *ssa.Call, a []Val) Val {
		s, ms := bytesOf(st, a[0])
		b := func(i int64) T { return tSel(ms, tIdx(s.Off, num(i))) }
		p0 := b(0)
		sz := tIte(tAnd(tLe("194", p0), tLe(p0, "223")), "2", tIte(tAnd(tLe("224", p0), tLe(p0, "239")), "3", tIte(tAnd(tLe("240", p0), tLe(p0, "244")), "4", "1")))
		cont := func(x T) T { return tAnd(tLe("128", x), tLe(x, "191")) }
		second := func(l, x T) T {
			return tIte(tEq(l, "224"), tAnd(tLe("160", x), tLe(x, "191")),
				tIte(tEq(l, "237"), tAnd(tLe("128", x), tLe(x, "159")),
					tIte(tEq(l, "240"), tAnd(tLe("144", x), tLe(x, "191")),
						tIte(tEq(l, "244"), tAnd(tLe("128", x), tLe(x, "143")), cont(x)))))
		}
		full := tAnd(tLt("0", s.Len), tOr(tGe(s.Len, sz),
			tAnd(tLt("1", s.Len), tNot(second(p0, b(1)))),
			tAnd(tLt("2", s.Len), tNot(cont(b(2))))))
		r := f.ex.decls.fresh("fullRune", SBool)
		st.assume(tEq(r, full))
		return VBool{r}
	}
}

// mime.ParseMediaType: the first result is a function of the input bytes (pmt); the algebra
// the callers rely on (case/whitespace/parameter invariance) is the standard library's.
func (ex *Exec) pmtOf(st *State, ms T, s VSlice) VSlice {
	fm := ex.decls.fun("pmt_mem", []string{SBytes, SInt, SInt}, SBytes)
	fl := ex.decls.fun("pmt_len", []string{SBytes, SInt, SInt}, SInt)
	r := ex.newRegion("pmt", false, true)
	st.mem[r] = []T{app(fm, ms, s.Off, s.Len)}
	ln := app(fl, ms, s.Off, s.Len)
	return VSlice{R: r, Elem: byteType, Off: "0", Len: ln, Cap: ln, Str: true}
}

func init() {
	models["mime.ParseMediaType"] = func(f *frame, st *State, ins *ssa.Call, a []Val) Val {
		ex := f.ex
		s, ms := bytesOf(st, a[0])
		r := ex.pmtOf(st, ms, s)
		st.assume(tAnd(tLe("0", r.Len), tLe(r.Len, two48)))
		tup := ins.Type().(*types.Tuple)
		return VTuple{[]Val{r, VMap{ID: ex.decls.fresh("pmt_params", SInt), Typ: tup.At(1).Type(), Unknown: true}, VIface{ID: ex.decls.fresh("pmt_err", SInt)}}}
	}
}

// ---------------------------------------------------------------------------
// encoding/xml (C12). Contract of (*Decoder).RawToken written from the package documentation:
// for input that starts with an XML declaration <?xml ... ?> it returns the processing
// instruction, unless the declaration names an encoding other than UTF-8 and
// Decoder.CharsetReader is nil, in which case it returns an error.

func init() {
	models["bytes.NewReader"] = func(f *frame, st *State, ins *ssa.Call, a []Val) Val {
		id := f.ex.decls.fresh("bytesReader", SInt)
		st.assume(tLt("0", id))
		if s, ok := a[0].(VSlice); ok {
			st.ghost["src:"+id] = s
		}
		return VOpaque{id, ins.Type()}
	}
	models["encoding/xml.NewDecoder"] = func(f *frame, st *State, ins *ssa.Call, a []Val) Val {
		ex := f.ex
		res := ex.freshVal(st, "xmlDecoder", ins.Type(), false)
		r, ok := res.(VRef)
		if !ok {
			return res
		}
		st.assume(tEq(r.T, tAdd(ex.frontierOf(st), "1")))
		st.assume(tLt(ex.heapTop(), r.T))
		st.frontier = r.T
		// a new decoder has no CharsetReader
		u := r.St.Underlying().(*types.Struct)
		for i := 0; i < u.NumFields(); i++ {
			if u.Field(i).Name() == "CharsetReader" {
				ex.heapStore(st, r.St, i, r.T, VFunc{ID: "0"})
			}
		}
		if rd, ok := a[0].(VIface); ok {
			if op, ok := rd.V.(VOpaque); ok {
				if s, ok := st.ghost["src:"+op.T]; ok {
					st.ghost["src:"+r.T] = s
				}
			}
		}
		return r
	}
	models["(*encoding/xml.Decoder).RawToken"] = func(f *frame, st *State, ins *ssa.Call, a []Val) Val {
		ex := f.ex
		tokID := ex.decls.fresh("xmlTok", SInt)
		err := ex.decls.fresh("xmlErr", SInt)
		st.assume(tLe("0", err))
		out := VTuple{[]Val{VIface{ID: tokID}, VIface{ID: err}}}
		dec, ok := a[0].(VRef)
		if !ok {
			return out
		}
		src, ok := st.ghost["src:"+dec.T].(VSlice)
		if !ok {
			return out
		}
		ms := st.mem[src.R][0]
		hasDecl := app(ex.decls.fun("xmlHasDecl", []string{SBytes, SInt, SInt}, SBool), ms, src.Off, src.Len)
		encUTF8 := app(ex.decls.fun("xmlDeclIsUTF8", []string{SBytes, SInt, SInt}, SBool), ms, src.Off, src.Len)
		cr := T("0")
		u := dec.St.Underlying().(*types.Struct)
		for i := 0; i < u.NumFields(); i++ {
			if u.Field(i).Name() == "CharsetReader" {
				if fv, ok := ex.heapLoad(st, dec.St, i, dec.T).(VFunc); ok {
					cr = fv.ID
				}
			}
		}
		st.assume(tImp(tAnd(hasDecl, tOr(encUTF8, tNe(cr, "0"))), tEq(err, "0")))
		st.assume(tImp(tAnd(hasDecl, tNot(encUTF8), tEq(cr, "0")), tNe(err, "0")))
		st.ghost["xml_src"] = src
		st.ghost["xml_err"] = VInt{err}
		// for a document that starts with a declaration the first raw token is the processing
		// instruction <?xml ...?>; its Inst is a function of the document (xmlInst)
		inst := ex.ufView(st, "xmlInst", ms, src, false)
		st.assume(tAnd(tLe("0", inst.Len), tLe(inst.Len, src.Len)))
		st.ghost["xmltok:"+tokID] = VTuple{E: []Val{VBool{tAnd(hasDecl, tEq(err, "0"))}, inst}}
		return out
	}
}

// mime.FormatMediaType: the result is a function of the type string and the parameter map.
func (ex *Exec) fmtMediaOf(st *State, ms T, s VSlice, mapID T) VSlice {
	fm := ex.decls.fun("fmtMedia_mem", []string{SBytes, SInt, SInt, SInt}, SBytes)
	fl := ex.decls.fun("fmtMedia_len", []string{SBytes, SInt, SInt, SInt}, SInt)
	r := ex.newRegion("fmtMedia", false, true)
	st.mem[r] = []T{app(fm, ms, s.Off, s.Len, mapID)}
	ln := app(fl, ms, s.Off, s.Len, mapID)
	return VSlice{R: r, Elem: byteType, Off: "0", Len: ln, Cap: ln, Str: true}
}

func init() {
	models["mime.FormatMediaType"] = func(f *frame, st *State, ins *ssa.Call, a []Val) Val {
		ex := f.ex
		s, ms := bytesOf(st, a[0])
		id := T("0")
		if m, ok := a[1].(VMap); ok {
			id = m.ID
		}
		r := ex.fmtMediaOf(st, ms, s, id)
		st.assume(tAnd(tLe("0", r.Len), tLe(r.Len, two48)))
		return r
	}
}
