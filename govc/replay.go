package main

// Replay of solver counterexamples against the real code.
//
//  1. The failed query is re-solved with small caps on input lengths and the model is read back
//     with (get-value ...) level by level (scalars, then bytes, then nested elements).
//  2. An in-package test is generated that builds those inputs, calls the real function
//     (recovering panics) and dumps results and the post-state of pointer arguments as JSON. It is
//     injected with `go test -overlay` (nothing is written under /repo).
//  3. For postconditions the violated clause is evaluated by the same spec evaluator over the
//     concrete observed values; for runtime checks the observation is the panic itself.

import (
	"encoding/hex"
	"encoding/json"
	"fmt"
	"go/types"
	"os"
	"os/exec"
	"path/filepath"
	"strconv"
	"strings"
	"time"

	"golang.org/x/tools/go/ssa"
)

type ReplayResult struct {
	Reproduced bool              `json:"reproduced"`
	Reason     string            `json:"reason"`
	Function   string            `json:"function"`
	Inputs     map[string]string `json:"inputs_go"`
	Observed   json.RawMessage   `json:"observed,omitempty"`
	TestFile   string            `json:"test_source,omitempty"`
	Cmd        string            `json:"cmd,omitempty"`
	Output     string            `json:"output,omitempty"`
}

// ---------------------------------------------------------------------------
// Model read-back

type concretizer struct {
	base    string
	pins    []string
	o       *Obligation
	timeout int
	calls   int
}

func newConcretizer(o *Obligation) *concretizer {
	return &concretizer{o: o, timeout: int(20000 * loadFactor())}
}

// baseScript is rebuilt for every query: read-back may declare further symbols (heap fields
// that the function never touched).
func (c *concretizer) baseScript() string {
	o := c.o
	var b strings.Builder
	b.WriteString(o.Decls.scriptDecls(nil))
	b.WriteString(idxDecl)
	o.Decls.mu.Lock()
	for _, d := range o.Decls.defs {
		b.WriteString(d + "\n")
	}
	o.Decls.mu.Unlock()
	seen := map[string]bool{}
	for _, f := range o.Facts {
		if f == "true" || seen[f] {
			continue
		}
		seen[f] = true
		b.WriteString("(assert " + f + ")\n")
	}
	b.WriteString("(assert (not " + o.Goal + "))\n")
	return b.String()
}

func (c *concretizer) run(extra []string, terms []T) ([]string, string) {
	c.calls++
	var b strings.Builder
	b.WriteString(c.baseScript())
	for _, p := range c.pins {
		b.WriteString("(assert " + p + ")\n")
	}
	for _, p := range extra {
		b.WriteString("(assert " + p + ")\n")
	}
	b.WriteString("(check-sat)\n")
	if len(terms) > 0 {
		b.WriteString("(get-value (" + strings.Join(terms, " ") + "))\n")
	}
	st, raw := runOne(solvers[1], b.String(), c.timeout, contextBackground())
	if st != "sat" {
		st2, raw2 := runOne(solvers[0], b.String(), c.timeout, contextBackground())
		if st2 == "sat" {
			st, raw = st2, raw2
		}
	}
	if st != "sat" {
		return nil, st
	}
	if len(terms) == 0 {
		return nil, "sat"
	}
	rest := raw[strings.Index(raw, "\n")+1:]
	vals := parseGetValue(rest, len(terms))
	if vals == nil {
		return nil, "parse-error: " + truncate(rest, 300)
	}
	return vals, "sat"
}

// parseGetValue parses ((t1 v1) (t2 v2) ...) and returns the values as strings ("-5", "true").
func parseGetValue(s string, n int) []string {
	toks := tokenizeSexp(s)
	pos := 0
	var parse func() any
	parse = func() any {
		if pos >= len(toks) {
			return nil
		}
		t := toks[pos]
		pos++
		if t == "(" {
			var l []any
			for pos < len(toks) && toks[pos] != ")" {
				l = append(l, parse())
			}
			pos++
			return l
		}
		return t
	}
	top, ok := parse().([]any)
	if !ok || len(top) != n {
		return nil
	}
	out := make([]string, n)
	for i, p := range top {
		pair, ok := p.([]any)
		if !ok || len(pair) != 2 {
			return nil
		}
		switch v := pair[1].(type) {
		case string:
			out[i] = v
		case []any:
			if len(v) == 2 && v[0] == "-" {
				if sv, ok := v[1].(string); ok {
					out[i] = "-" + sv
					continue
				}
			}
			return nil
		}
	}
	return out
}

func (c *concretizer) pin(term T, val string) {
	v := val
	if strings.HasPrefix(v, "-") {
		v = "(- " + v[1:] + ")"
	}
	c.pins = append(c.pins, "(= "+term+" "+v+")")
}

// scalar reads (and pins) integer/boolean terms.
func (c *concretizer) scalars(terms []T) ([]string, bool) {
	var need []T
	idx := map[int]int{}
	out := make([]string, len(terms))
	for i, t := range terms {
		if v, ok := isNum(t); ok {
			out[i] = v.String()
			continue
		}
		if t == "true" || t == "false" {
			out[i] = t
			continue
		}
		idx[len(need)] = i
		need = append(need, t)
	}
	if len(need) == 0 {
		return out, true
	}
	vals, st := c.run(nil, need)
	if st != "sat" {
		return nil, false
	}
	for k, v := range vals {
		out[idx[k]] = v
		c.pin(need[k], v)
	}
	return out, true
}

const maxReplayLen = 1 << 16

type goVal struct {
	Expr string // Go expression constructing the value
	JSON any    // structured rendering
}

// conc turns a symbolic entry value into a concrete Go expression according to the model.
func (c *concretizer) conc(ex *Exec, st *State, v Val, t types.Type, q types.Qualifier, depth int) (goVal, error) {
	ts := types.TypeString(t, q)
	switch x := v.(type) {
	case VInt:
		vs, ok := c.scalars([]T{x.T})
		if !ok {
			return goVal{}, fmt.Errorf("no model value for %s", x.T)
		}
		return goVal{Expr: fmt.Sprintf("%s(%s)", ts, vs[0]), JSON: vs[0]}, nil
	case VBool:
		vs, ok := c.scalars([]T{x.T})
		if !ok {
			return goVal{}, fmt.Errorf("no model value")
		}
		return goVal{Expr: vs[0], JSON: vs[0] == "true"}, nil
	case VSlice:
		vs, ok := c.scalars([]T{x.Len, x.Cap, x.Off})
		if !ok {
			return goVal{}, fmt.Errorf("no model value for slice header")
		}
		ln, _ := strconv.ParseInt(vs[0], 10, 64)
		cp, _ := strconv.ParseInt(vs[1], 10, 64)
		if ln < 0 || ln > maxReplayLen {
			return goVal{}, fmt.Errorf("model length %d not replayable", ln)
		}
		if cp > ln+64 {
			cp = ln + 64
		}
		if cp < ln {
			cp = ln
		}
		mem := st.mem[x.R]
		if isByteElem(x.Elem) {
			terms := make([]T, ln)
			for i := range terms {
				terms[i] = tSel(mem[0], tIdx(x.Off, num(int64(i))))
			}
			var bs []byte
			if ln > 0 {
				vals, ok := c.scalarsChunked(terms)
				if !ok {
					return goVal{}, fmt.Errorf("no model values for bytes")
				}
				for _, s := range vals {
					n, _ := strconv.ParseInt(s, 10, 64)
					bs = append(bs, byte(n))
				}
			}
			if x.Str || isStringType(t) {
				return goVal{Expr: fmt.Sprintf("%s(%s)", ts, strconv.Quote(string(bs))), JSON: map[string]any{"string_hex": hex.EncodeToString(bs)}}, nil
			}
			e := fmt.Sprintf("func() %s { s := make([]byte, %d, %d); copy(s, %s); return s }()", ts, ln, cp, strconv.Quote(string(bs)))
			if ln == 0 && cp == 0 {
				e = fmt.Sprintf("%s(nil)", ts)
			}
			return goVal{Expr: e, JSON: map[string]any{"bytes_hex": hex.EncodeToString(bs), "len": ln, "cap": cp}}, nil
		}
		if depth > 4 {
			return goVal{Expr: fmt.Sprintf("%s(nil)", ts), JSON: "depth-cut"}, nil
		}
		if ln > 64 {
			return goVal{}, fmt.Errorf("model slice of %d elements not replayable", ln)
		}
		var elems []string
		var js []any
		for i := int64(0); i < ln; i++ {
			comps := make([]T, len(mem))
			for ci := range mem {
				comps[ci] = tSel(mem[ci], tIdx(x.Off, num(i)))
			}
			ev, _ := ex.unflatten(st, comps, x.Elem, true)
			g, err := c.conc(ex, st, ev, x.Elem, q, depth+1)
			if err != nil {
				return goVal{}, err
			}
			elems = append(elems, g.Expr)
			js = append(js, g.JSON)
		}
		if ln == 0 && cp == 0 {
			return goVal{Expr: fmt.Sprintf("%s(nil)", ts), JSON: js}, nil
		}
		return goVal{Expr: fmt.Sprintf("append(make(%s, 0, %d), %s{%s}...)", ts, cp, ts, strings.Join(elems, ", ")), JSON: js}, nil
	case VStruct:
		u := t.Underlying().(*types.Struct)
		var fs []string
		js := map[string]any{}
		for i, fv := range x.F {
			if _, isSig := u.Field(i).Type().Underlying().(*types.Signature); isSig {
				continue
			}
			g, err := c.conc(ex, st, fv, u.Field(i).Type(), q, depth+1)
			if err != nil {
				return goVal{}, err
			}
			fs = append(fs, u.Field(i).Name()+": "+g.Expr)
			js[u.Field(i).Name()] = g.JSON
		}
		return goVal{Expr: fmt.Sprintf("%s{%s}", ts, strings.Join(fs, ", ")), JSON: js}, nil
	case VRef:
		vs, ok := c.scalars([]T{x.T})
		if !ok {
			return goVal{}, fmt.Errorf("no model value for pointer")
		}
		if vs[0] == "0" || depth > 3 {
			return goVal{Expr: fmt.Sprintf("(%s)(nil)", ts), JSON: nil}, nil
		}
		u := x.St.Underlying().(*types.Struct)
		var fs []string
		js := map[string]any{"$ref": vs[0]}
		for i := 0; i < u.NumFields(); i++ {
			ft := u.Field(i).Type()
			switch ft.Underlying().(type) {
			case *types.Signature, *types.Map, *types.Interface:
				continue
			}
			fv := ex.heapLoadPure(st, x.St, i, x.T)
			g, err := c.conc(ex, st, fv, ft, q, depth+1)
			if err != nil {
				return goVal{}, err
			}
			fs = append(fs, u.Field(i).Name()+": "+g.Expr)
			js[u.Field(i).Name()] = g.JSON
		}
		return goVal{Expr: fmt.Sprintf("&%s{%s}", types.TypeString(x.St, q), strings.Join(fs, ", ")), JSON: js}, nil
	case VCellPtr:
		et := t.Underlying().(*types.Pointer).Elem()
		g, err := c.conc(ex, st, st.cells[x.C], et, q, depth+1)
		if err != nil {
			return goVal{}, err
		}
		return goVal{Expr: fmt.Sprintf("func() %s { v := %s; return &v }()", ts, g.Expr), JSON: map[string]any{"pointee": g.JSON}}, nil
	case VFunc:
		return goVal{Expr: "nil", JSON: "func"}, nil
	case VMap:
		return goVal{Expr: fmt.Sprintf("%s{}", ts), JSON: "map"}, nil
	}
	return goVal{}, fmt.Errorf("cannot concretize %T", v)
}

func (c *concretizer) scalarsChunked(terms []T) ([]string, bool) {
	var out []string
	for i := 0; i < len(terms); i += 512 {
		j := i + 512
		if j > len(terms) {
			j = len(terms)
		}
		vs, ok := c.scalars(terms[i:j])
		if !ok {
			return nil, false
		}
		out = append(out, vs...)
	}
	return out, true
}

// ---------------------------------------------------------------------------

func qualifierFor(pkg *types.Package) types.Qualifier {
	return func(other *types.Package) string {
		if other == pkg {
			return ""
		}
		return other.Name()
	}
}

func importsFor(code string, pkg *types.Package) []string {
	var out []string
	for _, imp := range pkg.Imports() {
		if strings.Contains(code, imp.Name()+".") {
			out = append(out, imp.Path())
		}
	}
	return out
}

const dumpHelper = `
func govcDump(v reflect.Value, depth int) any {
	if depth > 6 { return "depth-cut" }
	switch v.Kind() {
	case reflect.Bool: return v.Bool()
	case reflect.Int, reflect.Int8, reflect.Int16, reflect.Int32, reflect.Int64: return fmt.Sprint(v.Int())
	case reflect.Uint, reflect.Uint8, reflect.Uint16, reflect.Uint32, reflect.Uint64, reflect.Uintptr: return fmt.Sprint(v.Uint())
	case reflect.String: return map[string]any{"string_hex": fmt.Sprintf("%x", v.String())}
	case reflect.Slice, reflect.Array:
		if v.Kind() == reflect.Slice && v.IsNil() {
			if v.Type().Elem().Kind() == reflect.Uint8 { return map[string]any{"bytes_hex": "", "len": 0, "cap": 0, "nil": true} }
			return []any{}
		}
		if v.Type().Elem().Kind() == reflect.Uint8 {
			b := make([]byte, v.Len())
			for i := range b { b[i] = byte(v.Index(i).Uint()) }
			c := v.Len()
			if v.Kind() == reflect.Slice { c = v.Cap() }
			return map[string]any{"bytes_hex": fmt.Sprintf("%x", b), "len": v.Len(), "cap": c}
		}
		out := []any{}
		for i := 0; i < v.Len() && i < 4096; i++ { out = append(out, govcDump(v.Index(i), depth+1)) }
		return out
	case reflect.Struct:
		m := map[string]any{}
		for i := 0; i < v.NumField(); i++ { m[v.Type().Field(i).Name] = govcDump(v.Field(i), depth+1) }
		return m
	case reflect.Pointer:
		if v.IsNil() { return nil }
		return map[string]any{"pointee": govcDump(v.Elem(), depth+1), "addr": fmt.Sprintf("%x", v.Pointer())}
	case reflect.Func:
		if v.IsNil() { return "nil" }
		return "func"
	case reflect.Interface:
		if v.IsNil() { return nil }
		return map[string]any{"iface": govcDump(v.Elem(), depth+1)}
	case reflect.Map:
		return map[string]any{"maplen": v.Len()}
	}
	return "?"
}
`

// replayObligation concretizes the model of a failed obligation and runs it on the real code.
func replayObligation(p *Program, o *Obligation) *ReplayResult {
	if o.replayFn != nil {
		return o.replayFn(o)
	}
	rr := &ReplayResult{Function: o.Fn, Inputs: map[string]string{}}
	snap := o.Entry
	if snap == nil || snap.Fn == nil {
		rr.Reason = "no entry snapshot"
		return rr
	}
	kind := o.Kind
	switch {
	case strings.HasPrefix(kind, "inv."), strings.HasPrefix(kind, "decreases."), strings.HasPrefix(kind, "call.pre"), strings.HasPrefix(kind, "ovf["), strings.HasPrefix(kind, "frame["), strings.HasPrefix(kind, "lock"):
		if o.Fn != p.keyOf(snap.Fn) || !strings.HasPrefix(kind, "call.pre") {
			rr.Reason = "obligation is about an intermediate state (loop head / call site / wrap-around), which is not determined by function inputs alone: not replayable from entry"
			if strings.HasPrefix(kind, "ovf[") {
				rr.Reason = "integer wrap-around is not a run-time panic; the model is reported but cannot be observed by execution"
			}
			return rr
		}
	}
	fn := snap.Fn
	if o.Fn != p.keyOf(fn) {
		// obligation raised inside an inlined callee: replay through the function under verification
	}
	ex := snap.ex
	st := snap.st
	if ex == nil || st == nil {
		rr.Reason = "no entry state"
		return rr
	}
	c := newConcretizer(o)
	// small models first
	var lens []T
	for _, ep := range snap.Params {
		collectLens(ex, st, ep.V, &lens, 0)
	}
	capped := false
	for _, k := range []int64{8, 64, 4096} {
		var extra []string
		for _, l := range lens {
			extra = append(extra, tLe(l, num(k)))
		}
		if _, status := c.run(extra, nil); status == "sat" {
			c.pins = append(c.pins, extra...)
			capped = true
			break
		}
	}
	if !capped {
		if _, status := c.run(nil, nil); status != "sat" {
			rr.Reason = "model could not be re-established for read-back: " + status
			return rr
		}
	}
	pkg := fn.Pkg
	top := fn
	for top.Parent() != nil {
		top = top.Parent()
	}
	if pkg == nil {
		pkg = top.Pkg
	}
	q := qualifierFor(pkg.Pkg)
	var argExprs []string
	var freeExprs []string
	inputsJSON := map[string]any{}
	for _, ep := range snap.Params {
		g, err := c.conc(ex, st, ep.V, ep.Typ, q, 0)
		if err != nil {
			rr.Reason = "cannot build a concrete input: " + err.Error()
			return rr
		}
		rr.Inputs[ep.Name] = truncate(g.Expr, 4000)
		inputsJSON[ep.Name] = g.JSON
		if strings.HasPrefix(ep.Name, "$free:") {
			freeExprs = append(freeExprs, g.Expr)
		} else {
			argExprs = append(argExprs, g.Expr)
		}
	}
	src, err := buildHarness(p, fn, top, pkg, argExprs, freeExprs, snap)
	if err != nil {
		rr.Reason = err.Error()
		return rr
	}
	rr.TestFile = src
	obs, out, cmd, err := runHarness(p, pkg, src)
	rr.Cmd = cmd
	rr.Output = truncate(out, 3000)
	if err != nil {
		rr.Reason = "replay run failed: " + err.Error()
		return rr
	}
	rr.Observed = obs
	var od struct {
		Panic   string `json:"panic"`
		Results []any  `json:"results"`
		Post    []any  `json:"post"`
		Pre     []any  `json:"pre"`
	}
	json.Unmarshal(obs, &od)
	switch {
	case strings.HasPrefix(kind, "post."):
		ok, why := evalPostConcrete(p, o, fn, od.Pre, od.Post, od.Results, od.Panic)
		rr.Reproduced = ok
		rr.Reason = why
	case strings.HasPrefix(kind, "frame.input"):
		rr.Reproduced = fmt.Sprint(od.Pre) != fmt.Sprint(od.Post)
		rr.Reason = "input buffers compared before/after the call"
	default:
		if od.Panic != "" {
			rr.Reproduced = true
			rr.Reason = "real code panicked: " + od.Panic
		} else if strings.HasPrefix(kind, "slice[") {
			rr.Reason = "no panic: the strict rule (re-slicing beyond len within cap) does not panic in Go"
		} else {
			rr.Reason = "real code did not panic on the model input"
		}
	}
	return rr
}

func collectLens(ex *Exec, st *State, v Val, out *[]T, depth int) {
	switch x := v.(type) {
	case VSlice:
		*out = append(*out, x.Len)
	case VStruct:
		for _, f := range x.F {
			collectLens(ex, st, f, out, depth+1)
		}
	case VCellPtr:
		collectLens(ex, st, st.cells[x.C], out, depth+1)
	case VRef:
		if depth > 1 {
			return
		}
		u := x.St.Underlying().(*types.Struct)
		for i := 0; i < u.NumFields(); i++ {
			if _, ok := u.Field(i).Type().Underlying().(*types.Slice); ok {
				fv := ex.heapLoadPure(st, x.St, i, x.T)
				collectLens(ex, st, fv, out, depth+1)
			}
		}
	}
}

func buildHarness(p *Program, fn, top *ssa.Function, pkg *ssa.Package, args, free []string, snap *EntrySnapshot) (string, error) {
	var b strings.Builder
	var body strings.Builder
	nparams := len(fn.Params)
	for i := 0; i < nparams; i++ {
		fmt.Fprintf(&body, "\targ%d := %s\n", i, args[i])
	}
	var call string
	var argNames []string
	for i := 0; i < nparams; i++ {
		argNames = append(argNames, fmt.Sprintf("arg%d", i))
	}
	variadic := func(sig *types.Signature, names []string) string {
		if sig.Variadic() && len(names) > 0 {
			names = append([]string(nil), names...)
			names[len(names)-1] += "..."
		}
		return strings.Join(names, ", ")
	}
	switch {
	case fn.Parent() != nil:
		// closure: rebuild it through its maker, whose parameters are the captured variables
		maker := fn.Parent()
		if maker.Parent() != nil || maker.Signature.Recv() != nil {
			return "", fmt.Errorf("closure %s is not directly constructible", p.keyOf(fn))
		}
		if len(fn.FreeVars) != len(maker.Params) {
			return "", fmt.Errorf("closure %s captures more than its maker's parameters", p.keyOf(fn))
		}
		var fnames []string
		for i, fv := range fn.FreeVars {
			idx := -1
			for j, mp := range maker.Params {
				if mp.Name() == fv.Name() {
					idx = j
				}
			}
			if idx < 0 {
				return "", fmt.Errorf("closure %s: captured variable %s is not a maker parameter", p.keyOf(fn), fv.Name())
			}
			_ = i
		}
		for j, mp := range maker.Params {
			for i, fv := range fn.FreeVars {
				if mp.Name() == fv.Name() {
					fmt.Fprintf(&body, "\tfree%d := %s\n", j, free[i])
				}
			}
			fnames = append(fnames, fmt.Sprintf("free%d", j))
		}
		call = fmt.Sprintf("%s(%s)(%s)", maker.Name(), variadic(maker.Signature, fnames), variadic(fn.Signature, argNames))
	case fn.Signature.Recv() != nil:
		call = fmt.Sprintf("arg0.%s(%s)", fn.Name(), variadic(fn.Signature, argNames[1:]))
	default:
		call = fmt.Sprintf("%s(%s)", fn.Name(), variadic(fn.Signature, argNames))
	}
	nres := fn.Signature.Results().Len()
	var rnames []string
	for i := 0; i < nres; i++ {
		rnames = append(rnames, fmt.Sprintf("r%d", i))
	}
	body.WriteString("\tpre := []any{")
	for i := range argNames {
		fmt.Fprintf(&body, "govcDump(reflect.ValueOf(&arg%d).Elem(), 0), ", i)
	}
	body.WriteString("}\n")
	body.WriteString("\tvar results []any\n\tpanicked := \"\"\n\tfunc() {\n\t\tdefer func() { if r := recover(); r != nil { panicked = fmt.Sprint(r) } }()\n")
	if nres > 0 {
		fmt.Fprintf(&body, "\t\t%s := %s\n", strings.Join(rnames, ", "), call)
		for _, r := range rnames {
			fmt.Fprintf(&body, "\t\tresults = append(results, govcDump(reflect.ValueOf(&%s).Elem(), 0))\n", r)
		}
	} else {
		fmt.Fprintf(&body, "\t\t%s\n", call)
	}
	body.WriteString("\t}()\n\tpost := []any{")
	for i := range argNames {
		fmt.Fprintf(&body, "govcDump(reflect.ValueOf(&arg%d).Elem(), 0), ", i)
	}
	body.WriteString("}\n")
	body.WriteString("\tout, _ := encjson.Marshal(map[string]any{\"panic\": panicked, \"results\": results, \"pre\": pre, \"post\": post})\n")
	body.WriteString("\tos.WriteFile(os.Getenv(\"GOVC_REPLAY_OUT\"), out, 0o644)\n")
	code := body.String()
	fmt.Fprintf(&b, "package %s\n\nimport (\n\tencjson \"encoding/json\"\n\t\"fmt\"\n\t\"os\"\n\t\"reflect\"\n\t\"testing\"\n", pkg.Pkg.Name())
	for _, imp := range importsFor(strings.Join(append(append([]string(nil), args...), free...), "\n"), pkg.Pkg) {
		switch imp {
		case "encoding/json", "fmt", "os", "reflect", "testing":
			continue
		}
		fmt.Fprintf(&b, "\t%q\n", imp)
	}
	b.WriteString(")\n")
	b.WriteString(dumpHelper)
	b.WriteString("\nfunc TestGovcReplay(t *testing.T) {\n")
	b.WriteString(code)
	b.WriteString("}\n")
	return b.String(), nil
}

func runHarness(p *Program, pkg *ssa.Package, src string) (json.RawMessage, string, string, error) {
	tmp, err := os.MkdirTemp("", "govc-replay-")
	if err != nil {
		return nil, "", "", err
	}
	defer os.RemoveAll(tmp)
	rel := strings.TrimPrefix(strings.TrimPrefix(pkg.Pkg.Path(), repoModule), "/")
	dir := filepath.Join(p.repoRoot, rel)
	testFile := filepath.Join(tmp, "zz_govc_replay_test.go")
	os.WriteFile(testFile, []byte(src), 0o644)
	ov := map[string]any{"Replace": map[string]string{filepath.Join(dir, "zz_govc_replay_test.go"): testFile}}
	ovData, _ := json.Marshal(ov)
	ovFile := filepath.Join(tmp, "overlay.json")
	os.WriteFile(ovFile, ovData, 0o644)
	outFile := filepath.Join(tmp, "out.json")
	args := []string{"test", "-overlay", ovFile, "-vet=off", "-count=1", "-timeout", "150s", "-run", "^TestGovcReplay$", "."}
	cmd := exec.Command("go", args...)
	cmd.Dir = dir
	cmd.Env = append(os.Environ(), "GOFLAGS=-mod=mod", "GOPROXY=off", "GOSUMDB=off", "GOTOOLCHAIN=local", "GOVC_REPLAY_OUT="+outFile, "GOCACHE="+filepath.Join(tmp, "gocache-unused"))
	// reuse the default build cache when available (much faster); fall back to a private one
	if home, err := os.UserCacheDir(); err == nil {
		cmd.Env = append(cmd.Env, "GOCACHE="+filepath.Join(home, "go-build"))
	}
	done := make(chan struct{})
	var out []byte
	var rerr error
	go func() { out, rerr = cmd.CombinedOutput(); close(done) }()
	select {
	case <-done:
	case <-time.After(300 * time.Second):
		cmd.Process.Kill()
		return nil, "", "", fmt.Errorf("replay timed out")
	}
	cmdStr := "cd " + dir + " && go " + strings.Join(args, " ")
	data, err := os.ReadFile(outFile)
	if err != nil {
		return nil, string(out), cmdStr, fmt.Errorf("no observation written (%v): %s", rerr, truncate(string(out), 500))
	}
	return data, string(out), cmdStr, nil
}

func cmdReplay(args []string) int {
	if len(args) < 1 {
		usage()
	}
	data, err := os.ReadFile(args[0])
	if err != nil {
		fmt.Fprintln(os.Stderr, err)
		return 2
	}
	var rec struct {
		Property   string `json:"property"`
		Obligation string `json:"obligation"`
		Instances  []struct {
			Replay *ReplayResult `json:"replay"`
		} `json:"instances"`
	}
	if err := json.Unmarshal(data, &rec); err != nil {
		fmt.Fprintln(os.Stderr, err)
		return 2
	}
	p := mustLoad()
	for _, in := range rec.Instances {
		if in.Replay == nil || in.Replay.TestFile == "" {
			continue
		}
		key := in.Replay.Function
		fn := p.funcs[key]
		if fn == nil {
			continue
		}
		top := fn
		for top.Parent() != nil {
			top = top.Parent()
		}
		obs, out, cmd, err := runHarness(p, top.Pkg, in.Replay.TestFile)
		fmt.Println("replay of", rec.Obligation, "via:", cmd)
		if err != nil {
			fmt.Println("  run failed:", err)
			continue
		}
		fmt.Println("  observed:", truncate(string(obs), 1500))
		_ = out
		return 0
	}
	fmt.Println("replay file carries no runnable input (no-failing-input-found); solver output is in the file")
	return 0
}
