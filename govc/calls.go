package main

// Calls (modular via contracts, inlining of small helpers, assumed-contract table
// for library functions, Detector type contract for dynamic calls) and loops.

import (
	"sort"
	"fmt"
	"go/types"
	"strings"

	"golang.org/x/tools/go/ssa"
)

func (f *frame) call(st *State, ins *ssa.Call, cc *ssa.CallCommon) Val {
	ex := f.ex
	var args []Val
	for _, a := range cc.Args {
		args = append(args, f.val(st, a))
	}
	if cc.IsInvoke() {
		name := "invoke " + cc.Method.FullName()
		ex.assumed["library/interface method assumed total and panic-free: "+cc.Method.FullName()] = true
		_ = name
		return f.havocResult(st, cc.Signature().Results(), "inv_"+cc.Method.Name())
	}
	if b, ok := cc.Value.(*ssa.Builtin); ok {
		return f.builtin(st, ins, b, args)
	}
	fnv := f.val(st, cc.Value)
	return f.callResolved(st, ins, cc, fnv, args)
}

func (f *frame) havocResult(st *State, res *types.Tuple, hint string) Val {
	ex := f.ex
	switch res.Len() {
	case 0:
		return VTuple{}
	case 1:
		return ex.freshVal(st, hint, res.At(0).Type(), false)
	}
	var vs []Val
	for i := 0; i < res.Len(); i++ {
		vs = append(vs, ex.freshVal(st, fmt.Sprintf("%s_%d", hint, i), res.At(i).Type(), false))
	}
	return VTuple{vs}
}

// callResolved performs a call whose function value is known. ins may be nil (deferred calls).
// For calls that fork (inlined callees with several return paths) the continuation is run by
// the caller of step; to keep the executor simple, inlining is restricted to callees whose
// return paths are merged here by continuing execution inside this function (see inlineCall).
func (f *frame) callResolved(st *State, ins *ssa.Call, cc *ssa.CallCommon, fnv Val, args []Val) Val {
	ex := f.ex
	var callee *ssa.Function
	var free []Val
	switch v := fnv.(type) {
	case VFunc:
		callee = v.Fn
		free = v.Free
	}
	if callee == nil {
		if sc := cc.StaticCallee(); sc != nil {
			callee = sc
		}
	}
	if callee == nil {
		return f.dynamicCall(st, ins, cc, fnv, args)
	}
	name := callee.String()
	if callee.Blocks != nil && ex.prog.inRepo(callee) {
		key := ex.prog.keyOf(callee)
		con := ex.prog.contracts[key]
		if con != nil && !con.Inline && !ex.initMode {
			return f.callContract(st, ins, callee, con, args, free)
		}
		return f.inlineCall(st, ins, callee, args, free)
	}
	if m, ok := models[name]; ok {
		ex.assumed["assumed contract: "+name] = true
		return m(f, st, ins, args)
	}
	if strings.HasPrefix(name, "slices.Contains") && len(args) == 2 {
		// slices.Contains(s, v): some element equals v (documented behaviour)
		if sl, ok := args[0].(VSlice); ok {
			ex.assumed["assumed contract: slices.Contains"] = true
			res := ex.decls.fresh("contains", SBool)
			q := "sc_" + sanitize(res)
			var eqAt func(i T) T
			switch v := args[1].(type) {
			case VSlice:
				eqAt = func(i T) T {
					if e, ok := f.readElem(st, sl, i).(VSlice); ok {
						return seqEqTerms(ex, st, e, v)
					}
					return "false"
				}
			case VInt:
				eqAt = func(i T) T {
					if e, ok := f.readElem(st, sl, i).(VInt); ok {
						return tEq(e.T, v.T)
					}
					return "false"
				}
			}
			if eqAt != nil && f.quant() {
				st.assume(tEq(res, tExists(q, tAnd(tLe("0", q), tLt(q, sl.Len), eqAt(q)))))
				return VBool{res}
			}
		}
	}
	ex.assumed["library function assumed total, panic-free, result unconstrained: "+name] = true
	res := f.havocResult(st, callee.Signature.Results(), sanitize(callee.Name()))
	if nonNilFns[name] {
		if r, ok := res.(VRef); ok {
			// a library constructor returns a new object
			st.assume(tLe("0", ex.heapTop()))
			st.assume(tLt(ex.heapTop(), r.T))
			st.assume(tEq(r.T, tAdd(ex.frontierOf(st), "1")))
			st.frontier = r.T
			st.fresh = append(st.fresh, r.T)
		}
		if r, ok := res.(VOpaque); ok {
			st.assume(tLt("0", r.T))
		}
	}
	return res
}

// dynamicCall: call through a function value of unknown identity. Functions of the Detector
// shape obey the Detector type contract: total, panic-free, pure and deterministic in
// (function, bytes, limit).
func (f *frame) dynamicCall(st *State, ins *ssa.Call, cc *ssa.CallCommon, fnv Val, args []Val) Val {
	ex := f.ex
	sig := cc.Signature()
	id := T("0")
	if v, ok := fnv.(VFunc); ok {
		id = v.ID
	}
	if ex.mode.Safety && ins != nil {
		f.ob(st, f.ord("nilfunc", ins), ins.Pos(), tNe(id, "0"), "call of nil function value")
	}
	st.assume(tNe(id, "0"))
	if isDetectorSig(sig) {
		raw := args[0].(VSlice)
		lim := args[1].(VInt).T
		fn := ex.decls.fun("det", []string{SInt, SBytes, SInt, SInt, SInt}, SBool)
		ex.assumed["Detector type contract: dynamically called detectors are total, panic-free, pure"] = true
		return VBool{app(fn, id, st.mem[raw.R][0], raw.Off, raw.Len, lim)}
	}
	if sig.Params().Len() == 1 && sig.Results().Len() == 1 && isStringType(sig.Results().At(0).Type()) {
		if raw, ok := args[0].(VSlice); ok {
			// func([]byte) string : charset function value, pure
			r := ex.freshSlice(st, "dyn_str", types.Typ[types.Uint8], true, false)
			_ = raw
			ex.assumed["dynamically called func([]byte) string assumed total and panic-free"] = true
			return r
		}
	}
	ex.assumed["dynamic call assumed total and panic-free: "+sig.String()] = true
	return f.havocResult(st, sig.Results(), "dyn")
}

var nonNilFns = map[string]bool{"encoding/csv.NewReader": true, "bufio.NewReader": true, "encoding/xml.NewDecoder": true,
	"golang.org/x/net/html.NewTokenizer": true, "bytes.NewReader": true}

func isDetectorSig(sig *types.Signature) bool {
	if sig.Params().Len() != 2 || sig.Results().Len() != 1 {
		return false
	}
	s, ok := sig.Params().At(0).Type().Underlying().(*types.Slice)
	if !ok || !isByteElem(s.Elem()) {
		return false
	}
	b, ok := sig.Params().At(1).Type().Underlying().(*types.Basic)
	if !ok || b.Kind() != types.Uint32 {
		return false
	}
	r, ok := sig.Results().At(0).Type().Underlying().(*types.Basic)
	return ok && r.Kind() == types.Bool
}

// ---------------------------------------------------------------------------
// Inlining. The callee is executed on the current state; all its return paths must be
// continued by the caller. Because execBlock is direct-style, inlineCall explores the callee
// and then *merges* its return paths into one state using fresh result symbols:
//   facts_k ==> (result == val_k && cells/heap/mem == those of path k)
// Merging keeps the caller linear. To stay exact, every return path contributes a guarded
// disjunct; the merged state assumes the disjunction of path conditions.

func (f *frame) inlineCall(st *State, ins *ssa.Call, callee *ssa.Function, args []Val, free []Val) Val {
	ex := f.ex
	for fr := f; fr != nil; fr = fr.caller {
		if fr.fn == callee {
			ex.aborted = fmt.Sprintf("recursive call of %s without contract", ex.prog.keyOf(callee))
			st.dead = true
			return VTuple{}
		}
	}
	if ex.inlineDepth > 6 {
		ex.aborted = "inline depth exceeded at " + ex.prog.keyOf(callee)
		st.dead = true
		return VTuple{}
	}
	ex.inlineDepth++
	defer func() { ex.inlineDepth-- }()
	nf := ex.newFrame(callee, f)
	nf.inlined = true
	nf.params = args
	nf.free = free
	var rets []retPath
	nf.rets = &rets
	nf.entry = st
	base := len(st.facts)
	work := st.clone()
	for _, b := range callee.Blocks {
		delete(work.iters, b)
	}
	nf.entry = st.clone()
	ex.execBlock(nf, work, callee.Blocks[0], nil)
	ex.inlinedFns[nf.key] = true
	if len(rets) == 0 {
		st.dead = true
		return VTuple{}
	}
	if len(rets) == 1 {
		*st = *rets[0].st
		return tupleOf(rets[0].vals)
	}
	if ins != nil && len(rets) <= 3 && !ex.initMode && forkWorthwhile(st, rets) {
		return VFork{rets}
	}
	return f.mergeReturns(st, base, rets, callee)
}

func tupleOf(vs []Val) Val {
	switch len(vs) {
	case 0:
		return VTuple{}
	case 1:
		return vs[0]
	}
	return VTuple{vs}
}

// mergeReturns joins several return paths of an inlined callee. Only scalar-ish differences
// are merged (results, caller-visible cells, heap fields, memories); structure must agree.
func (f *frame) mergeReturns(st *State, base int, rets []retPath, callee *ssa.Function) Val {
	ex := f.ex
	// path conditions: facts added beyond base
	var conds []T
	for _, r := range rets {
		conds = append(conds, tAnd(r.st.facts[base:]...))
	}
	orig := st.clone()
	*st = *rets[0].st.clone()
	st.facts = append([]T(nil), orig.facts[:base]...)
	st.assume(tOr(conds...))
	// the merged path depends on what was asserted on every merged branch
	for _, r := range rets[1:] {
		for n := r.st.priors; n != nil && n != orig.priors; n = n.prev {
			st.priors = &priorNode{n.ob, st.priors}
		}
	}
	// results
	nres := len(rets[0].vals)
	out := make([]Val, nres)
	for i := 0; i < nres; i++ {
		var alts []Val
		for _, r := range rets {
			alts = append(alts, r.vals[i])
		}
		out[i] = ex.mergeVals(st, conds, alts, callee.Signature.Results().At(i).Type(), fmt.Sprintf("%s_r%d", sanitize(callee.Name()), i), rets)
	}
	// cells of the caller chain (cells that existed before the call)
	for c := range orig.cells {
		var alts []Val
		same := true
		for _, r := range rets {
			v := r.st.cells[c]
			alts = append(alts, v)
			if !sameVal(v, rets[0].st.cells[c]) {
				same = false
			}
		}
		if same {
			st.cells[c] = rets[0].st.cells[c]
			continue
		}
		st.cells[c] = ex.mergeVals(st, conds, alts, c.typ, "cell_"+c.name, rets)
	}
	// heap
	keys := map[string]bool{}
	for _, r := range rets {
		for k := range r.st.heap {
			keys[k] = true
		}
	}
	for k := range keys {
		var first []T
		same := true
		for i, r := range rets {
			h := r.st.heap[k]
			if i == 0 {
				first = h
			} else if !sameTerms(h, first) {
				same = false
			}
		}
		if same && first != nil {
			st.heap[k] = first
			continue
		}
		// declare merged arrays
		var ref []T
		for _, r := range rets {
			if r.st.heap[k] != nil {
				ref = r.st.heap[k]
			}
		}
		merged := make([]T, len(ref))
		for ci := range ref {
			sort := ex.sortOfHeapComp(k, ci)
			merged[ci] = ex.decls.fresh("Hm_"+k, sort)
			for pi, r := range rets {
				h := r.st.heap[k]
				var t T
				if h == nil {
					t = ex.decls.named(fmt.Sprintf("H0_%s_%d", k, ci), sort)
				} else {
					t = h[ci]
				}
				st.assume(tImp(conds[pi], tEq(merged[ci], t)))
			}
		}
		st.heap[k] = merged
	}
	// memories of regions that existed before
	for rg := range orig.mem {
		var first []T
		same := true
		for i, r := range rets {
			m := r.st.mem[rg]
			if i == 0 {
				first = m
			} else if !sameTerms(m, first) {
				same = false
			}
		}
		if same {
			st.mem[rg] = first
			continue
		}
		merged := make([]T, len(first))
		for ci := range first {
			merged[ci] = ex.decls.fresh("Mm_"+rg.name, ex.sortOfTerm(first[ci]))
			for pi, r := range rets {
				st.assume(tImp(conds[pi], tEq(merged[ci], r.st.mem[rg][ci])))
			}
		}
		st.mem[rg] = merged
	}
	{
		sameF := true
		for _, r := range rets {
			if r.st.frontier != rets[0].st.frontier {
				sameF = false
			}
		}
		if sameF {
			st.frontier = rets[0].st.frontier
		} else {
			fr := ex.decls.fresh("frontier", SInt)
			for i, r := range rets {
				st.assume(tImp(conds[i], tEq(fr, ex.frontierOf(r.st))))
			}
			st.frontier = fr
		}
	}
	st.fresh = nil
	seen := map[T]bool{}
	for _, r := range rets {
		for _, x := range r.st.fresh {
			if !seen[x] {
				seen[x] = true
				st.fresh = append(st.fresh, x)
			}
		}
	}
	return tupleOf(out)
}

func elemTypeOfRegion(r *Region, st *State) types.Type {
	// only byte regions are ever written in this code base
	return types.Typ[types.Uint8]
}

func (ex *Exec) sortOfHeapComp(key string, ci int) string {
	if s, ok := ex.prog.heapSorts[key]; ok {
		return s[ci]
	}
	return ex.dynHeapSorts[key][ci]
}

// mergeVals joins alternative values under path conditions.
func (ex *Exec) mergeVals(st *State, conds []T, alts []Val, t types.Type, hint string, rets []retPath) Val {
	allSame := true
	for _, a := range alts[1:] {
		if !sameVal(a, alts[0]) {
			allSame = false
		}
	}
	if allSame {
		return alts[0]
	}
	switch a0 := alts[0].(type) {
	case VInt:
		r := ex.decls.fresh(hint, SInt)
		for i, a := range alts {
			st.assume(tImp(conds[i], tEq(r, a.(VInt).T)))
		}
		return VInt{r}
	case VBool:
		r := ex.decls.fresh(hint, SBool)
		for i, a := range alts {
			st.assume(tImp(conds[i], tEq(r, a.(VBool).T)))
		}
		return VBool{r}
	case VRef:
		r := ex.decls.fresh(hint, SInt)
		for i, a := range alts {
			st.assume(tImp(conds[i], tEq(r, a.(VRef).T)))
		}
		return VRef{r, a0.St}
	case VFunc:
		r := ex.decls.fresh(hint, SInt)
		for i, a := range alts {
			st.assume(tImp(conds[i], tEq(r, a.(VFunc).ID)))
		}
		return VFunc{ID: r}
	case VIface:
		r := ex.decls.fresh(hint, SInt)
		for i, a := range alts {
			st.assume(tImp(conds[i], tEq(r, a.(VIface).ID)))
		}
		return VIface{ID: r}
	case VOpaque:
		r := ex.decls.fresh(hint, SInt)
		for i, a := range alts {
			st.assume(tImp(conds[i], tEq(r, a.(VOpaque).T)))
		}
		return VOpaque{r, a0.Typ}
	case VSlice:
		// if all alternatives share the region, merge off/len/cap; otherwise build a fresh region
		sameR := true
		for _, a := range alts {
			if a.(VSlice).R != a0.R {
				sameR = false
			}
		}
		off := ex.decls.fresh(hint+"_off", SInt)
		ln := ex.decls.fresh(hint+"_len", SInt)
		cp := ex.decls.fresh(hint+"_cap", SInt)
		out := VSlice{Elem: a0.Elem, Off: off, Len: ln, Cap: cp, Str: a0.Str}
		if sameR {
			out.R = a0.R
		} else {
			strict := false
			for _, a := range alts {
				if a.(VSlice).R.strict {
					strict = true
				}
			}
			out.R = ex.newRegion(hint, strict, false)
			m := ex.freshMem(hint, a0.Elem)
			st.mem[out.R] = m
			for i, a := range alts {
				am := rets[i].st.mem[a.(VSlice).R]
				for ci := range m {
					st.assume(tImp(conds[i], tEq(m[ci], am[ci])))
				}
			}
		}
		for i, a := range alts {
			s := a.(VSlice)
			st.assume(tImp(conds[i], tAnd(tEq(off, s.Off), tEq(ln, s.Len), tEq(cp, s.Cap))))
		}
		st.assume(tAnd(tLe("0", off), tLe("0", ln), tLe(ln, cp), tLe(cp, two48)))
		return out
	case VStruct:
		u := t.Underlying().(*types.Struct)
		vs := VStruct{Typ: t}
		for fi := range a0.F {
			var fa []Val
			for _, a := range alts {
				fa = append(fa, a.(VStruct).F[fi])
			}
			vs.F = append(vs.F, ex.mergeVals(st, conds, fa, u.Field(fi).Type(), hint+"_"+u.Field(fi).Name(), rets))
		}
		return vs
	case VTuple:
		return a0
	}
	ex.note(fmt.Sprintf("out-of-subset: cannot merge values of kind %T", alts[0]))
	return alts[0]
}

// ---------------------------------------------------------------------------
// Builtins

func (f *frame) builtin(st *State, ins *ssa.Call, b *ssa.Builtin, args []Val) Val {
	ex := f.ex
	switch b.Name() {
	case "len":
		switch a := args[0].(type) {
		case VSlice:
			return VInt{a.Len}
		}
		if m, ok := args[0].(VMap); ok && !m.Unknown {
			return VInt{num(int64(len(m.Keys)))}
		}
		if m, ok := args[0].(VMap); ok {
			n := app(ex.decls.fun("maplen", []string{SInt}, SInt), m.ID)
			st.assume(tLe("0", n))
			return VInt{n}
		}
		ex.note("abstracted: len of map in " + f.key)
		n := ex.decls.fresh("maplen", SInt)
		st.assume(tLe("0", n))
		return VInt{n}
	case "cap":
		return VInt{args[0].(VSlice).Cap}
	case "append":
		return f.appendOp(st, ins, args[0].(VSlice), args[1].(VSlice))
	case "copy":
		ex.note("out-of-subset: copy builtin in " + f.key)
		return f.havocResult(st, types.NewTuple(types.NewVar(0, nil, "", types.Typ[types.Int])), "copy")
	case "min", "max":
		r := args[0].(VInt).T
		for _, a := range args[1:] {
			x := a.(VInt).T
			if b.Name() == "min" {
				r = tIte(tLt(x, r), x, r)
			} else {
				r = tIte(tGt(x, r), x, r)
			}
		}
		return VInt{r}
	case "ssa:wrapnilchk":
		return args[0]
	}
	ex.note("out-of-subset: builtin " + b.Name() + " in " + f.key)
	return ex.freshVal(st, "bi", ins.Type(), true)
}

// appendOp models append(s, e...). The result is a slice over a new region whose contents
// are s followed by e. (The in-place case len(s)+len(e) <= cap(s), where the write lands in
// memory shared with other holders of s, is what the lock discipline of C06 asks about; it is
// raised as a separate obligation by lockAppend.)
func (f *frame) appendOp(st *State, ins *ssa.Call, s, e VSlice) Val {
	ex := f.ex
	f.lockAppend(st, ins, s, e)
	if s.R.input && ex.mode.Safety && ins != nil {
		// append writes in place when len < cap: on a view of the caller's buffer that modifies the input
		f.ob(st, f.ord("frame.input", ins), ins.Pos(), tOr(tEq(s.Len, s.Cap), tEq(e.Len, "0")), "append to a view of an input parameter does not write into the caller's buffer (needs len == cap)")
	}
	r := ex.newRegion("app", false, true)
	sm := st.mem[s.R]
	em := st.mem[e.R]
	nlen := tAdd(s.Len, e.Len)
	out := VSlice{R: r, Elem: s.Elem, Off: s.Off, Len: nlen}
	cp := ex.decls.fresh("appcap", SInt)
	st.assume(tLe(nlen, cp))
	st.assume(tLe(cp, two48))
	st.assume(tImp(tLe(nlen, s.Cap), tEq(cp, s.Cap)))
	out.Cap = cp
	if k, ok := isNum(e.Len); ok && k.IsInt64() && k.Int64() <= 8 {
		// concrete number of appended elements: chain of stores, quantifier-free
		nm := append([]T(nil), sm...)
		for i := int64(0); i < k.Int64(); i++ {
			for ci := range nm {
				nm[ci] = tStore(nm[ci], tIdx(tAdd(s.Off, s.Len), num(i)), tSel(em[ci], tIdx(e.Off, num(i))))
			}
		}
		st.mem[r] = nm
		return out
	}
	nm := ex.freshMem("app", s.Elem)
	for ci := range nm {
		// stated over indices of the result slice, so that quantified specifications about the
		// result (indexed the same way) instantiate them
		st.assume(tForall("ap_", tImp(tAnd(tLe("0", "ap_"), tLt("ap_", s.Len)),
			tEq(tSel(nm[ci], tIdx(s.Off, "ap_")), tSel(sm[ci], tIdx(s.Off, "ap_"))))))
		st.assume(tForall("ap_", tImp(tAnd(tLe(s.Len, "ap_"), tLt("ap_", nlen)),
			tEq(tSel(nm[ci], tIdx(s.Off, "ap_")), tSel(em[ci], tIdx(e.Off, tSub("ap_", s.Len)))))))
	}
	st.mem[r] = nm
	return out
}

// ---------------------------------------------------------------------------
// Loops

func (f *frame) loopSpec(li *loopInfo) *LoopSpec {
	if f.con == nil {
		return nil
	}
	if m := f.ex.prog.loopRemapOf(f.key); m != nil {
		k, ok := m[li.ordinal]
		if !ok {
			return nil
		}
		return f.con.Loops[k]
	}
	return f.con.Loops[li.ordinal]
}

// rangeIndexCell finds the rangeindex alloc that the loop header increments.
func (f *frame) rangeInfo(st *State, li *loopInfo) (idx *Cell, ln T, ok bool) {
	// header: t8 = *t7 ; t9 = t8 + 1 ; *t7 = t9 ; t10 = t9 < t6 ; if t10
	for _, ins := range li.header.Instrs {
		if s, isStore := ins.(*ssa.Store); isStore {
			if a, isA := s.Addr.(*ssa.Alloc); isA && a.Comment == "rangeindex" {
				idx = f.cellOf[a]
			}
		}
		if b, isB := ins.(*ssa.BinOp); isB && b.Op.String() == "<" {
			if v, has := st.regs[b.Y]; has {
				ln = v.(VInt).T
			} else if c, isC := b.Y.(*ssa.Const); isC {
				ln = f.constVal(st, c).(VInt).T
			}
		}
	}
	return idx, ln, idx != nil && ln != ""
}

// concreteRange: a range loop over a collection of concrete length (literal tables, captured
// signature lists after init) can be unrolled exactly.
func (f *frame) concreteRange(st *State, li *loopInfo) bool { return f.concreteRangeMax(st, li, 64) }

func (f *frame) concreteRangeMax(st *State, li *loopInfo, max int64) bool {
	if !li.isRange {
		return false
	}
	for _, ins := range li.header.Instrs {
		if b, isB := ins.(*ssa.BinOp); isB && b.Op.String() == "<" {
			if v, has := st.regs[b.Y]; has {
				if iv, isInt := v.(VInt); isInt {
					if n, ok := isNum(iv.T); ok && n.IsInt64() && n.Int64() <= max {
						return true
					}
				}
			}
		}
	}
	return false
}

// storesInLoop computes what a loop may modify: cells (by alloc), heap fields, and whether
// byte memory is written.
type loopMods struct {
	allocs map[*ssa.Alloc]bool
	fields map[string]bool
	memW   bool
	calls  []*ssa.Function
	global map[*ssa.Global]bool
}

func (p *Program) modsOfBlocks(fn *ssa.Function, blocks map[*ssa.BasicBlock]bool, seen map[*ssa.Function]bool, m *loopMods, top bool) {
	var root func(v ssa.Value) ssa.Value
	root = func(v ssa.Value) ssa.Value {
		switch x := v.(type) {
		case *ssa.FieldAddr:
			if _, isPtrToHeap := heapStructName(x.X.Type().(*types.Pointer).Elem()); isPtrToHeap {
				if _, isAlloc := x.X.(*ssa.Alloc); !isAlloc {
					return x
				}
				if a := x.X.(*ssa.Alloc); a.Heap {
					return x
				}
			}
			return root(x.X)
		case *ssa.IndexAddr:
			return x
		}
		return v
	}
	for _, b := range fn.Blocks {
		if blocks != nil && !blocks[b] {
			continue
		}
		for _, ins := range b.Instrs {
			switch x := ins.(type) {
			case *ssa.Alloc:
				if n, ok := heapStructName(x.Type().(*types.Pointer).Elem()); ok && x.Heap && p.heapModelled(n) {
					u := n.Underlying().(*types.Struct)
					for i := 0; i < u.NumFields(); i++ {
						m.fields[namedKey(n)+"."+u.Field(i).Name()] = true
					}
					for hk := range p.heapSorts {
						if strings.HasPrefix(hk, namedKey(n)+".$") {
							m.fields[hk] = true
						}
					}
				}
			case *ssa.Store:
				switch r := root(x.Addr).(type) {
				case *ssa.Alloc:
					if top {
						m.allocs[r] = true
					}
				case *ssa.FieldAddr:
					n, _ := heapStructName(r.X.Type().(*types.Pointer).Elem())
					u := n.Underlying().(*types.Struct)
					m.fields[namedKey(n)+"."+u.Field(r.Field).Name()] = true
				case *ssa.IndexAddr:
					m.memW = true
				case *ssa.Global:
					m.global[r] = true
				case *ssa.FreeVar:
					// store to captured variable
					m.memW = m.memW
				}
			case *ssa.Call:
				// pointer-to-local arguments may be written by the callee
				for _, a := range x.Call.Args {
					if al, ok := a.(*ssa.Alloc); ok && top {
						m.allocs[al] = true
					}
				}
				if mc, ok := x.Call.Value.(*ssa.MakeClosure); ok {
					for _, bnd := range mc.Bindings {
						if al, ok := bnd.(*ssa.Alloc); ok && top {
							m.allocs[al] = true
						}
					}
				}
				if callee := x.Call.StaticCallee(); callee != nil && p.inRepo(callee) && callee.Blocks != nil {
					if con := p.contracts[p.keyOf(callee)]; con != nil && !con.Inline {
						for _, a := range con.Assigns {
							if fe, ok := a.(*EField); ok {
								m.fields["*."+fe.Name] = true
							}
							if ce, ok := a.(*ECall); ok && ce.Fn == "mem" {
								m.memW = true
							}
						}
					} else if !seen[callee] {
						seen[callee] = true
						p.modsOfBlocks(callee, nil, seen, m, false)
					}
				}
			}
		}
	}
}

func (f *frame) loopMods(li *loopInfo) *loopMods {
	m := &loopMods{allocs: map[*ssa.Alloc]bool{}, fields: map[string]bool{}, global: map[*ssa.Global]bool{}}
	f.ex.prog.modsOfBlocks(f.fn, li.blocks, map[*ssa.Function]bool{f.fn: true}, m, true)
	return m
}

func (f *frame) invariants(st *State, li *loopInfo, ls *LoopSpec) (labels []string, terms []T, variant []T) {
	ex := f.ex
	if li.isRange {
		if idx, ln, ok := f.rangeInfo(st, li); ok {
			iv := st.cells[idx].(VInt).T
			labels = append(labels, "range")
			terms = append(terms, tAnd(tLe(num(-1), iv), tLt(iv, ln)))
			// -1 <= idx < len: idx == -1 before the first element (and always for an empty collection)
			variant = []T{tSub(ln, iv)}
		}
	}
	if ls != nil {
		env := f.specEnvInv(st)
		env.skipBlocks = map[*ssa.BasicBlock]bool{}
		for b := range li.blocks {
			if b != li.header {
				env.skipBlocks[b] = true
			}
		}
		if !li.isRange {
			// contracts written for a range loop name its hidden index `rangeindex` (the index of the last
			// element processed); in the equivalent index loop that is the induction variable minus one
			if a := f.inductionVar(li); a != nil {
				if c := f.cellOf[a]; c != nil {
					if iv, ok := st.cells[c].(VInt); ok {
						env.vars["rangeindex"] = VInt{tSub(iv.T, "1")}
					}
				}
			}
		}
		for _, c := range ls.Invariants {
			labels = append(labels, c.Label)
			terms = append(terms, env.evalBool(c.E))
		}
		if len(ls.Decreases) > 0 {
			variant = nil
			for _, d := range ls.Decreases {
				variant = append(variant, env.evalInt(d))
			}
		}
	}
	// loop annotations of the function under verification that no longer find their loop there
	// (the loop was moved into a helper that is executed in place) are offered as candidate
	// invariants to the loops of such helpers; like all candidates they are proved or dropped
	if f.inlined && f.con == nil && ex.top != nil && ex.top.con != nil && !ex.initMode {
		nTop := len(ex.top.loops)
		assigned := map[int]bool{}
		remap := ex.prog.loopRemapOf(ex.top.key)
		for _, k := range remap {
			assigned[k] = true
		}
		var ords []int
		for k := range ex.top.con.Loops {
			if (remap == nil && k > nTop) || (remap != nil && !assigned[k]) {
				ords = append(ords, k)
			}
		}
		sort.Ints(ords)
		for _, k := range ords {
			for _, c := range ex.top.con.Loops[k].Invariants {
				full := fmt.Sprintf("auto.orphan%d.%s", k, c.Label)
				if !ex.prog.autoAlive(f.loopKey(li), full) {
					continue
				}
				var t T
				ok := func() (ok bool) {
					defer func() {
						if r := recover(); r != nil {
							ok = false
						}
					}()
					env := f.specEnvInv(st)
					env.skipBlocks = map[*ssa.BasicBlock]bool{}
					for b := range li.blocks {
						if b != li.header {
							env.skipBlocks[b] = true
						}
					}
					if ex.top.entry != nil {
						env.old = ex.top.entry
					}
					t = env.evalBool(c.E)
					return true
				}()
				if ok {
					labels = append(labels, full)
					terms = append(terms, t)
				}
			}
		}
	}
	if f.needsAuto(li, ls) {
		al, at, av := f.autoCandidates(st, li)
		labels = append(labels, al...)
		terms = append(terms, at...)
		if len(variant) == 0 && (ls == nil || len(ls.Decreases) == 0) {
			idx := ex.prog.autoVariantIdx(f.loopKey(li))
			if idx < len(av) {
				variant = []T{av[idx]}
			}
		}
	}
	return
}

func (f *frame) loopKey(li *loopInfo) string { return fmt.Sprintf("%s/loop%d", f.key, li.ordinal) }

// needsAuto: loops without user annotations get inferred (and checked) bound invariants.
func (f *frame) needsAuto(li *loopInfo, ls *LoopSpec) bool {
	if li.isRange || f.ex.initMode {
		return false
	}
	if ls != nil && (ls.Unroll || ls.Terminates != "") {
		return false
	}
	if ls != nil && len(ls.Invariants) > 0 && len(ls.Decreases) > 0 {
		return false
	}
	// no annotation, or invariants without a variant (a range loop that a change turned into an
	// index loop keeps its invariants but has lost the built-in bounds and variant)
	return true
}

// inductionVar: for `for i := ...; i < n; i++` style loops, the local compared in the loop condition.
func (f *frame) inductionVar(li *loopInfo) *ssa.Alloc {
	for _, ins := range li.header.Instrs {
		b, ok := ins.(*ssa.BinOp)
		if !ok {
			continue
		}
		switch b.Op.String() {
		case "<", "<=", "!=":
			if u, ok := b.X.(*ssa.UnOp); ok {
				if a, ok := u.X.(*ssa.Alloc); ok && a.Comment != "" {
					return a
				}
			}
		}
	}
	return nil
}

// autoCandidates: Houdini-style candidate invariants over the variables a loop modifies, relative
// to their values at loop entry and to the lengths of slices in scope. Candidates are *checked*
// like user invariants (inv.init / inv.pres); those that fail are dropped and the function is
// re-verified (see genObligations). Also returns candidate variants.
func (f *frame) autoCandidates(st *State, li *loopInfo) (labels []string, terms []T, variants []T) {
	ex := f.ex
	entry := st.entries[f.loopKey(li)]
	if entry == nil {
		return
	}
	key := f.loopKey(li)
	mods := f.loopMods(li)
	type sl struct {
		name string
		v    VSlice
	}
	var lens []sl
	for i, p := range f.fn.Params {
		if v, ok := f.params[i].(VSlice); ok {
			lens = append(lens, sl{"param_" + p.Name(), v})
		}
	}
	for al, c := range f.cellOf {
		if mods.allocs[al] {
			continue
		}
		if v, ok := entry.cells[c].(VSlice); ok && al.Comment != "" {
			lens = append(lens, sl{al.Comment, v})
		}
	}
	// slice-typed fields of heap objects passed as parameters (e.g. len(m.aliases)), when the loop
	// does not store to that field
	for i, p := range f.fn.Params {
		r, ok := f.params[i].(VRef)
		if !ok || r.St == nil {
			continue
		}
		u, ok := r.St.Underlying().(*types.Struct)
		if !ok {
			continue
		}
		for fi := 0; fi < u.NumFields(); fi++ {
			if _, isSl := u.Field(fi).Type().Underlying().(*types.Slice); !isSl {
				continue
			}
			if mods.fields[namedKey(r.St)+"."+u.Field(fi).Name()] {
				continue
			}
			func() {
				defer func() { recover() }()
				if v, ok := ex.heapLoad(st, r.St, fi, r.T).(VSlice); ok {
					lens = append(lens, sl{"field_" + p.Name() + "_" + u.Field(fi).Name(), v})
				}
			}()
		}
	}
	type iv struct {
		name string
		t    T
	}
	var ints []iv
	for i, p := range f.fn.Params {
		if v, ok := f.params[i].(VInt); ok {
			ints = append(ints, iv{"param_" + p.Name(), v.T})
		}
	}
	for al, c := range f.cellOf {
		if mods.allocs[al] || al.Comment == "" {
			continue
		}
		if v, ok := entry.cells[c].(VInt); ok {
			ints = append(ints, iv{al.Comment, v.T})
		}
	}
	add := func(label string, t T) bool {
		full := "auto." + label
		if !ex.prog.autoAlive(key, full) {
			return false
		}
		labels = append(labels, full)
		terms = append(terms, t)
		return true
	}
	for al := range mods.allocs {
		c := f.cellOf[al]
		if c == nil || al.Comment == "" {
			continue
		}
		e0, live := entry.cells[c]
		cur, live2 := st.cells[c]
		if !live || !live2 {
			continue
		}
		switch x := cur.(type) {
		case VInt:
			x0, ok := e0.(VInt)
			if !ok {
				continue
			}
			up := add(al.Comment+".ge_entry", tGe(x.T, x0.T))
			down := add(al.Comment+".le_entry", tLe(x.T, x0.T))
			nn := add(al.Comment+".ge0", tLe("0", x.T))
			nn1 := add(al.Comment+".ge_m1", tLe(num(-1), x.T))
			for _, s := range lens {
				if add(al.Comment+".le_len_"+s.name, tLe(x.T, s.v.Len)) && up {
					variants = append(variants, tSub(s.v.Len, x.T))
				}
				add(al.Comment+".lt_len_"+s.name, tLt(x.T, s.v.Len))
			}
			for _, y := range ints {
				if add(al.Comment+".le_"+y.name, tLe(x.T, y.t)) && up {
					variants = append(variants, tSub(y.t, x.T))
				}
				add(al.Comment+".lt_"+y.name, tLt(x.T, y.t))
			}
			if down && (nn || nn1) {
				variants = append(variants, tAdd(x.T, "1"))
			}
		case VSlice:
			y, ok := e0.(VSlice)
			if !ok {
				continue
			}
			mx, my := st.mem[x.R], entry.mem[y.R]
			if len(mx) != len(my) {
				continue
			}
			var meq []T
			for i := range mx {
				meq = append(meq, tEq(mx[i], my[i]))
			}
			if add(al.Comment+".suffix_of_entry", tAnd(tAnd(meq...), tLe(y.Off, x.Off), tEq(tAdd(x.Off, x.Len), tAdd(y.Off, y.Len)))) {
				variants = append(variants, x.Len)
			}
			add(al.Comment+".prefix_of_entry", tAnd(tAnd(meq...), tEq(y.Off, x.Off), tLe(x.Len, y.Len)))
		}
	}
	return
}

func (f *frame) loopEntry(st *State, li *loopInfo, ls *LoopSpec) bool {
	ex := f.ex
	f.runGhost(st, fmt.Sprintf("loop %d entry", li.ordinal))
	if st.entries == nil {
		st.entries = map[string]*State{}
	}
	st.entries[f.loopKey(li)] = st.clone()
	labels, terms, _ := f.invariants(st, li, ls)
	if ex.mode.Functional || ex.mode.Safety {
		for i, t := range terms {
			f.ob(st, fmt.Sprintf("inv.init[%d].%s", li.ordinal, labels[i]), li.pos, t, "loop invariant holds on entry")
		}
	}
	// havoc what the loop modifies
	mods := f.loopMods(li)
	for al := range mods.allocs {
		c := f.cellOf[al]
		if c == nil {
			continue // allocated inside the loop
		}
		if _, live := st.cells[c]; !live {
			continue
		}
		st.cells[c] = f.havocLike(st, st.cells[c], c.typ, "lp_"+c.name)
	}
	for k := range mods.fields {
		for hk := range ex.prog.heapSorts {
			if hk == k || (strings.HasPrefix(k, "*.") && strings.HasSuffix(hk, k[1:])) {
				sorts := ex.prog.heapSorts[hk]
				arr := make([]T, len(sorts))
				for ci, s := range sorts {
					arr[ci] = ex.decls.fresh("Hl_"+hk, s)
				}
				st.heap[hk] = arr
				f.entryFrame(st, hk, arr)
			}
		}
	}
	if len(mods.fields) > 0 {
		// the loop may allocate: the frontier at the loop head is some value not below the one at entry
		fr := ex.decls.fresh("frontier_lp", SInt)
		st.assume(tLe(ex.frontierOf(st), fr))
		st.frontier = fr
	}
	if mods.memW {
		for r := range st.mem {
			if !r.input && !r.strict {
				st.mem[r] = ex.freshMemLike(st.mem[r], r.name)
			}
		}
	}
	for g := range mods.global {
		ex.prog.globalHavoc(ex, st, g)
	}
	labels, terms, variant := f.invariants(st, li, ls)
	for _, t := range terms {
		st.assume(t)
	}
	if ls != nil {
		env := f.specEnvInv(st)
		for _, c := range ls.Assumes {
			st.assume(env.evalBool(c.E))
			ex.assumed[fmt.Sprintf("loop assumption in %s loop %d: %s", f.key, li.ordinal, c.Src)] = true
		}
		if ls.Terminates != "" && len(variant) == 0 {
			ex.assumed[fmt.Sprintf("termination of %s loop %d assumed: %s", f.key, li.ordinal, ls.Terminates)] = true
			st.variants[li.header] = nil
			return !st.dead
		}
	}
	st.variants[li.header] = variant
	snap := st.clone()
	if st.heads == nil {
		st.heads = map[int]*State{}
	}
	if !f.inlined {
		st.heads[li.ordinal] = snap
	}
	if len(variant) == 0 && (ex.mode.Functional || ex.mode.Safety) {
		// no variant given and none inferred: termination of this loop is undecided (not refuted)
		o := &Obligation{Fn: f.key, Kind: fmt.Sprintf("decreases.loop[%d]", li.ordinal), Name: fmt.Sprintf("%s#decreases.loop[%d]", f.key, li.ordinal),
			Goal: "false", Desc: "loop has no variant (termination not shown)", Decls: ex.decls,
			Result: &SolverResult{Status: "unknown", Raw: "no variant annotated or inferred", All: map[string]string{}}}
		if li.pos.IsValid() {
			o.Pos = ex.prog.fset.Position(li.pos)
		}
		ex.obs = append(ex.obs, o)
	}
	return !st.dead
}

func (ex *Exec) freshMemLike(m []T, hint string) []T {
	out := make([]T, len(m))
	for i := range m {
		out[i] = ex.decls.fresh("Ml_"+hint, ex.sortOfTerm(m[i]))
	}
	return out
}

// sortOfTerm: memories are either declared symbols or store chains / const arrays over them.
func (ex *Exec) sortOfTerm(t T) string {
	for strings.HasPrefix(t, "(store ") {
		parts := splitTop(t[1 : len(t)-1])
		t = parts[1]
	}
	if strings.HasPrefix(t, "((as const ") {
		rest := t[len("((as const "):]
		depth := 0
		for i := 0; i < len(rest); i++ {
			if rest[i] == '(' {
				depth++
			}
			if rest[i] == ')' {
				depth--
				if depth == 0 {
					return rest[:i+1]
				}
			}
		}
	}
	ex.decls.mu.Lock()
	defer ex.decls.mu.Unlock()
	if s, ok := ex.decls.sorts[t]; ok {
		return s
	}
	return SBytes
}

// havocLike returns a fresh value of the same shape. Slices keep strictness of their region.
func (f *frame) havocLike(st *State, v Val, t types.Type, hint string) Val {
	ex := f.ex
	switch x := v.(type) {
	case VSlice:
		if _, isArr := t.Underlying().(*types.Array); isArr {
			// array cell: contents may change, shape is fixed
			if !x.R.input {
				st.mem[x.R] = ex.freshMemLike(st.mem[x.R], hint)
			}
			return x
		}
		nv := ex.freshSlice(st, hint, x.Elem, x.Str, x.R.strict)
		nv.R.input = x.R.input
		return nv
	case VStruct:
		u := t.Underlying().(*types.Struct)
		out := VStruct{Typ: x.Typ}
		for i, fv := range x.F {
			out.F = append(out.F, f.havocLike(st, fv, u.Field(i).Type(), hint+"_"+u.Field(i).Name()))
		}
		return out
	case VCellPtr:
		return x
	}
	return ex.freshVal(st, hint, t, true)
}

func (f *frame) loopBackEdge(st *State, li *loopInfo, ls *LoopSpec) {
	ex := f.ex
	f.runGhost(st, fmt.Sprintf("loop %d end", li.ordinal))
	labels, terms, variant := f.invariants(st, li, ls)
	if ex.mode.Functional || ex.mode.Safety {
		for i, t := range terms {
			f.ob(st, fmt.Sprintf("inv.pres[%d].%s", li.ordinal, labels[i]), li.pos, t, "loop invariant preserved")
		}
		v0 := st.variants[li.header]
		if len(v0) > 0 && len(variant) == len(v0) {
			f.ob(st, fmt.Sprintf("decreases.loop[%d]", li.ordinal), li.pos, lexLess(variant, v0), "loop variant decreases and is bounded below")
			if f.needsAuto(li, ls) && (ls == nil || len(ls.Decreases) == 0) && len(ex.obs) > 0 {
				ex.obs[len(ex.obs)-1].autoVariant = f.loopKey(li)
			}
		}
	}
}

// lexLess: new < old lexicographically, every component >= 0.
func lexLess(nw, old []T) T {
	var nonneg []T
	for _, x := range nw {
		nonneg = append(nonneg, tLe("0", x))
	}
	var alts []T
	for i := range nw {
		var c []T
		for j := 0; j < i; j++ {
			c = append(c, tEq(nw[j], old[j]))
		}
		c = append(c, tLt(nw[i], old[i]))
		alts = append(alts, tAnd(c...))
	}
	return tAnd(tAnd(nonneg...), tOr(alts...))
}

func sameTerms(a, b []T) bool {
	if len(a) != len(b) {
		return false
	}
	if len(a) > 0 && &a[0] == &b[0] {
		return true
	}
	for i := range a {
		if a[i] != b[i] {
			return false
		}
	}
	return true
}

// sameVal: cheap structural equality of symbolic values (terms compared as strings).
func sameVal(a, b Val) bool {
	switch x := a.(type) {
	case VInt:
		y, ok := b.(VInt)
		return ok && x.T == y.T
	case VBool:
		y, ok := b.(VBool)
		return ok && x.T == y.T
	case VRef:
		y, ok := b.(VRef)
		return ok && x.T == y.T
	case VOpaque:
		y, ok := b.(VOpaque)
		return ok && x.T == y.T
	case VFunc:
		y, ok := b.(VFunc)
		return ok && x.ID == y.ID
	case VIface:
		y, ok := b.(VIface)
		return ok && x.ID == y.ID
	case VNilPtr:
		_, ok := b.(VNilPtr)
		return ok
	case VCellPtr:
		y, ok := b.(VCellPtr)
		if !ok || x.C != y.C || len(x.Path) != len(y.Path) {
			return false
		}
		for i := range x.Path {
			if x.Path[i] != y.Path[i] {
				return false
			}
		}
		return true
	case VSlice:
		y, ok := b.(VSlice)
		return ok && x.R == y.R && x.Off == y.Off && x.Len == y.Len && x.Cap == y.Cap
	case VStruct:
		y, ok := b.(VStruct)
		if !ok || len(x.F) != len(y.F) {
			return false
		}
		for i := range x.F {
			if !sameVal(x.F[i], y.F[i]) {
				return false
			}
		}
		return true
	case VMap:
		y, ok := b.(VMap)
		if !ok || x.ID != y.ID || len(x.Keys) != len(y.Keys) {
			return false
		}
		for i := range x.Keys {
			if x.Keys[i] != y.Keys[i] || !sameVal(x.Vals[i], y.Vals[i]) {
				return false
			}
		}
		return true
	case VTuple:
		y, ok := b.(VTuple)
		if !ok || len(x.E) != len(y.E) {
			return false
		}
		for i := range x.E {
			if !sameVal(x.E[i], y.E[i]) {
				return false
			}
		}
		return true
	case VGlobalPtr:
		y, ok := b.(VGlobalPtr)
		return ok && x.G == y.G
	case VElemPtr:
		y, ok := b.(VElemPtr)
		return ok && x.S.R == y.S.R && x.S.Off == y.S.Off && x.Idx == y.Idx
	case VFieldPtr:
		y, ok := b.(VFieldPtr)
		return ok && x.Ref == y.Ref && x.Field == y.Field
	case nil:
		return b == nil
	}
	return false
}

// forkWorthwhile: merging return paths replaces differing slice headers by fresh symbols, which
// loses the exact offset arithmetic that quantified specifications rely on. Paths are continued
// separately when a slice-valued result or a slice-valued variable of the caller differs.
func forkWorthwhile(orig *State, rets []retPath) bool {
	for i := range rets[0].vals {
		if _, ok := rets[0].vals[i].(VMap); ok {
			// maps are path-concrete: merging two different maps would lose their entries
			for _, r := range rets[1:] {
				if !sameVal(r.vals[i], rets[0].vals[i]) {
					return true
				}
			}
		}
		if _, ok := rets[0].vals[i].(VSlice); ok {
			for _, r := range rets[1:] {
				if !sameVal(r.vals[i], rets[0].vals[i]) {
					return true
				}
			}
		}
	}
	for c, v := range orig.cells {
		if _, ok := v.(VSlice); !ok {
			continue
		}
		for _, r := range rets {
			if !sameVal(r.st.cells[c], v) {
				return true
			}
		}
	}
	return false
}
