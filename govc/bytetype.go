package main

import "go/types"

var byteType = types.Typ[types.Uint8]
