package main

// Instruction semantics.

import (
	"fmt"
	"go/token"
	"go/types"
	"math/big"

	"golang.org/x/tools/go/ssa"
)

func (f *frame) step(st *State, ins ssa.Instruction) {
	ex := f.ex
	switch x := ins.(type) {
	case *ssa.DebugRef:
	case *ssa.Alloc:
		st.regs[x] = f.alloc(st, x)
	case *ssa.Store:
		f.store(st, f.val(st, x.Addr), f.val(st, x.Val), x.Val.Type(), x)
	case *ssa.UnOp:
		st.regs[x] = f.unop(st, x)
	case *ssa.BinOp:
		st.regs[x] = f.binop(st, x)
	case *ssa.Call:
		if x.Call.Value.Name() == "ssa:deferstack" {
			st.regs[x] = VOpaque{"0", x.Type()}
			return
		}
		st.regs[x] = f.call(st, x, &x.Call)
	case *ssa.Defer:
		var args []Val
		for _, a := range x.Call.Args {
			args = append(args, f.val(st, a))
		}
		st.defers = append(st.defers, deferred{call: &x.Call, fn: f.val(st, x.Call.Value), args: args})
	case *ssa.RunDefers:
		for len(st.defers) > 0 && !st.dead {
			d := st.defers[len(st.defers)-1]
			st.defers = st.defers[:len(st.defers)-1]
			f.callResolved(st, nil, d.call, d.fn, d.args)
		}
	case *ssa.IndexAddr:
		st.regs[x] = f.indexAddr(st, x)
	case *ssa.Index:
		base := f.val(st, x.X)
		idx := f.val(st, x.Index).(VInt).T
		s := base.(VSlice)
		f.boundsOb(st, x, idx, s.Len)
		st.regs[x] = f.readElem(st, s, idx)
	case *ssa.Slice:
		st.regs[x] = f.sliceOp(st, x)
	case *ssa.FieldAddr:
		st.regs[x] = f.fieldAddr(st, x)
	case *ssa.Field:
		v := f.val(st, x.X).(VStruct)
		st.regs[x] = v.F[x.Field]
	case *ssa.MakeSlice:
		ln := f.val(st, x.Len).(VInt).T
		cp := f.val(st, x.Cap).(VInt).T
		if ex.mode.Safety {
			f.ob(st, f.ord("make", x), x.Pos(), tAnd(tLe("0", ln), tLe(ln, cp)), "makeslice: len out of range")
		}
		elem := x.Type().Underlying().(*types.Slice).Elem()
		r := ex.newRegion("make", false, true)
		var m []T
		for _, s := range sortsOf(elem) {
			m = append(m, zeroOfSort(arrOf(s)))
		}
		st.mem[r] = m
		st.regs[x] = VSlice{R: r, Elem: elem, Off: "0", Len: ln, Cap: cp}
	case *ssa.MakeClosure:
		var free []Val
		for _, b := range x.Bindings {
			free = append(free, f.val(st, b))
		}
		st.regs[x] = ex.prog.funcVal(x.Fn.(*ssa.Function), free)
	case *ssa.MakeInterface:
		v := f.val(st, x.X)
		st.regs[x] = VIface{Dyn: x.X.Type(), V: v, ID: ex.decls.fresh("iface", SInt)}
	case *ssa.MakeMap:
		st.regs[x] = VMap{ID: ex.decls.fresh("map", SInt), Typ: x.Type()}
	case *ssa.MapUpdate:
		f.mapUpdate(st, x)
	case *ssa.Lookup:
		f.lookup(st, x)
	case *ssa.ChangeType:
		st.regs[x] = f.val(st, x.X)
	case *ssa.ChangeInterface:
		st.regs[x] = f.val(st, x.X)
	case *ssa.Convert:
		st.regs[x] = f.convert(st, x)
	case *ssa.TypeAssert:
		f.typeAssert(st, x)
	case *ssa.Extract:
		t := f.val(st, x.Tuple).(VTuple)
		st.regs[x] = t.E[x.Index]
	case *ssa.SliceToArrayPointer, *ssa.Range, *ssa.Next, *ssa.Go, *ssa.Select, *ssa.Send, *ssa.MultiConvert:
		ex.note(fmt.Sprintf("out-of-subset: %T in %s", ins, f.key))
		if v, ok := ins.(ssa.Value); ok {
			st.regs[v] = ex.freshVal(st, "oos", v.Type(), true)
		}
	default:
		panic(fmt.Sprintf("unhandled instruction %T in %s", ins, f.key))
	}
}

func (f *frame) alloc(st *State, a *ssa.Alloc) Val {
	ex := f.ex
	et := a.Type().(*types.Pointer).Elem()
	if n, ok := heapStructName(et); ok && a.Heap && ex.prog.heapModelled(n) {
		var ref T
		if ex.initMode {
			// package initialisation starts from the empty heap: objects get concrete addresses
			ex.initRefs++
			ref = num(int64(ex.initRefs))
			st.frontier = ref
		} else {
			ref = ex.decls.fresh("new_"+n.Obj().Name(), SInt)
			st.assume(tLe("0", ex.heapTop()))
			// allocation is dense and monotone: the new object is the next address, so the
			// objects that exist are exactly 1..frontier
			st.assume(tEq(ref, tAdd(ex.frontierOf(st), "1")))
			st.assume(tLt(ex.heapTop(), ref))
			st.frontier = ref
			st.fresh = append(st.fresh, ref)
		}
		u := n.Underlying().(*types.Struct)
		for i := 0; i < u.NumFields(); i++ {
			ex.heapStore(st, n, i, ref, zeroVal(ex, st, u.Field(i).Type()))
		}
		return VRef{ref, n}
	}
	name := a.Comment
	if name == "" {
		name = a.Name()
	}
	c := ex.newCell(name, et)
	c.al = a
	f.cellOf[a] = c
	st.cells[c] = zeroVal(ex, st, et)
	return VCellPtr{C: c}
}

func (f *frame) unop(st *State, x *ssa.UnOp) Val {
	ex := f.ex
	switch x.Op {
	case token.MUL:
		p := f.val(st, x.X)
		return f.load(st, p, x.Type(), x.Pos(), x)
	case token.NOT:
		return VBool{tNot(f.val(st, x.X).(VBool).T)}
	case token.SUB:
		v := f.val(st, x.X).(VInt).T
		r := tNeg(v)
		return f.wrapArith(st, x, x.Type(), r)
	case token.XOR:
		bits, signed, _ := intInfo(x.Type())
		v := f.val(st, x.X).(VInt).T
		if signed {
			return VInt{tSub(tNeg(v), "1")}
		}
		return VInt{tSub(numBig(new(big.Int).Sub(pow2(bits), bigOne)), v)}
	}
	ex.note(fmt.Sprintf("out-of-subset: unop %s in %s", x.Op, f.key))
	return ex.freshVal(st, "unop", x.Type(), true)
}

// wrapArith applies machine semantics to a mathematical result r of type t.
func (f *frame) wrapArith(st *State, ins ssa.Instruction, t types.Type, r T) Val {
	ex := f.ex
	bits, signed, ok := intInfo(t)
	if !ok {
		return VInt{r}
	}
	if _, isn := isNum(r); isn {
		// constant: fold exactly
		v, _ := isNum(r)
		m := pow2(bits)
		w := new(big.Int).Mod(v, m)
		if signed && w.Cmp(pow2(bits-1)) >= 0 {
			w.Sub(w, m)
		}
		return VInt{numBig(w)}
	}
	if signed {
		if ex.mode.Overflow {
			f.ob(st, f.ord("ovf", ins), ins.Pos(), rangeFact(t, r), "signed integer overflow")
		}
		// after the obligation the value is mathematical
		st.assume(rangeFact(t, r))
		return VInt{r}
	}
	return VInt{tModC(r, pow2(bits))}
}

func (f *frame) binop(st *State, x *ssa.BinOp) Val {
	ex := f.ex
	a := f.val(st, x.X)
	b := f.val(st, x.Y)
	switch x.Op {
	case token.EQL, token.NEQ:
		r := f.equal(st, a, b, x.X.Type())
		if x.Op == token.NEQ {
			r = tNot(r)
		}
		return VBool{r}
	}
	if ab, ok := a.(VBool); ok {
		bb := b.(VBool)
		switch x.Op {
		case token.LAND, token.AND:
			return VBool{tAnd(ab.T, bb.T)}
		case token.LOR, token.OR:
			return VBool{tOr(ab.T, bb.T)}
		}
	}
	if as, ok := a.(VSlice); ok && as.Str {
		bs := b.(VSlice)
		switch x.Op {
		case token.ADD:
			return f.strConcat(st, as, bs)
		}
		ex.note("out-of-subset: string comparison " + x.Op.String() + " in " + f.key)
		return ex.freshVal(st, "strop", x.Type(), true)
	}
	ai, ok1 := a.(VInt)
	bi, ok2 := b.(VInt)
	if !ok1 || !ok2 {
		ex.note(fmt.Sprintf("out-of-subset: binop %s on %T in %s", x.Op, a, f.key))
		return ex.freshVal(st, "binop", x.Type(), true)
	}
	t := x.X.Type()
	switch x.Op {
	case token.LSS:
		return VBool{tLt(ai.T, bi.T)}
	case token.LEQ:
		return VBool{tLe(ai.T, bi.T)}
	case token.GTR:
		return VBool{tGt(ai.T, bi.T)}
	case token.GEQ:
		return VBool{tGe(ai.T, bi.T)}
	case token.ADD:
		return f.wrapArith(st, x, t, tAdd(ai.T, bi.T))
	case token.SUB:
		return f.wrapArith(st, x, t, tSub(ai.T, bi.T))
	case token.MUL:
		return f.wrapArith(st, x, t, tMul(ai.T, bi.T))
	case token.QUO, token.REM:
		if ex.mode.Safety {
			f.ob(st, f.ord("div", x), x.Pos(), tNe(bi.T, "0"), "integer division by zero")
		}
		// Go truncated division; exact for non-negative operands, otherwise via sign cases
		q := ex.decls.fresh("quo", SInt)
		r := ex.decls.fresh("rem", SInt)
		st.assume(tImp(tNe(bi.T, "0"), tAnd(
			tEq(ai.T, tAdd(tMul(bi.T, q), r)),
			tImp(tGe(ai.T, "0"), tAnd(tLe("0", r), tLt(r, app("abs", bi.T)))),
			tImp(tLt(ai.T, "0"), tAnd(tLe(r, "0"), tLt(tNeg(app("abs", bi.T)), r))))))
		if x.Op == token.QUO {
			return VInt{q}
		}
		return VInt{r}
	case token.SHL:
		if k, ok := isNum(bi.T); ok && k.IsInt64() && k.Int64() >= 0 && k.Int64() < 64 {
			r := tMul(ai.T, numBig(pow2(uint(k.Int64()))))
			return f.wrapArith(st, x, t, r)
		}
	case token.SHR:
		if k, ok := isNum(bi.T); ok && k.IsInt64() && k.Int64() >= 0 && k.Int64() < 64 {
			return VInt{tDivC(ai.T, pow2(uint(k.Int64())))}
		}
	case token.AND:
		if c, ok := isNum(bi.T); ok && c.Sign() >= 0 {
			return VInt{f.andConst(st, ai.T, c, t)}
		}
		if c, ok := isNum(ai.T); ok && c.Sign() >= 0 {
			return VInt{f.andConst(st, bi.T, c, t)}
		}
		fn := ex.decls.fun("bitand", []string{SInt, SInt}, SInt)
		r := app(fn, ai.T, bi.T)
		st.assume(tImp(tAnd(tLe("0", ai.T), tLe("0", bi.T)), tAnd(tLe("0", r), tLe(r, ai.T), tLe(r, bi.T))))
		// exact when one operand is a single bit: 2^i & y == (bit i of y) * 2^i, for non-negative y
		for i := uint(0); i < 16; i++ {
			pw := numBig(pow2(i))
			bitOf := func(v T) T { return tEq(tModC(tDivC(v, pow2(i)), pow2(1)), "1") }
			st.assume(tImp(tAnd(tEq(ai.T, pw), tLe("0", bi.T)), tEq(r, tIte(bitOf(bi.T), pw, "0"))))
			st.assume(tImp(tAnd(tEq(bi.T, pw), tLe("0", ai.T)), tEq(r, tIte(bitOf(ai.T), pw, "0"))))
		}
		ex.note("abstracted: variable & variable (uninterpreted with range axioms) in " + f.key)
		return VInt{r}
	case token.OR:
		// x | y == x + y when the set bits are disjoint: (k*2^s) | d with 0 <= d < 2^s
		fn := ex.decls.fun("bitor", []string{SInt, SInt}, SInt)
		r := app(fn, ai.T, bi.T)
		var disj []T
		for _, s := range []uint{1, 2, 3, 4, 8, 16} {
			p := pow2(s)
			disj = append(disj, tAnd(tEq(tModC(ai.T, p), "0"), tLe("0", bi.T), tLt(bi.T, numBig(p))))
		}
		res := ex.decls.fresh("or", SInt)
		st.assume(tIte(tOr(disj...), tEq(res, tAdd(ai.T, bi.T)), tEq(res, r)))
		st.assume(tImp(tAnd(tLe("0", ai.T), tLe("0", bi.T)), tAnd(tLe(ai.T, res), tLe(bi.T, res), tLe(res, tAdd(ai.T, bi.T)))))
		return VInt{res}
	case token.XOR, token.AND_NOT:
	}
	ex.note(fmt.Sprintf("out-of-subset: binop %s in %s", x.Op, f.key))
	return ex.freshVal(st, "binop", x.Type(), true)
}

// andConst: x & c for a non-negative constant mask c, x of unsigned type or non-negative.
func (f *frame) andConst(st *State, x T, c *big.Int, t types.Type) T {
	if xv, ok := isNum(x); ok && xv.Sign() >= 0 {
		return numBig(new(big.Int).And(xv, c))
	}
	// decompose c into maximal runs of set bits [lo,hi]
	res := T("0")
	n := c.BitLen()
	i := 0
	for i < n {
		if c.Bit(i) == 0 {
			i++
			continue
		}
		lo := i
		for i < n && c.Bit(i) == 1 {
			i++
		}
		width := uint(i - lo)
		part := tModC(tDivC(x, pow2(uint(lo))), pow2(width))
		res = tAdd(res, tMul(part, numBig(pow2(uint(lo)))))
	}
	_, signed, _ := intInfo(t)
	if signed {
		// for negative x two's complement differs only in the bits above bit 63; low 63 bits of the
		// mathematical floor-div/mod decomposition agree with two's complement, so the formula is exact
		// for masks below 2^63.
	}
	return res
}

func (f *frame) strConcat(st *State, a, b VSlice) Val {
	ex := f.ex
	if a.HasLit && b.HasLit {
		return ex.litSlice(st, append(append([]byte(nil), a.Lit...), b.Lit...), true)
	}
	r := ex.freshSlice(st, "concat", types.Typ[types.Uint8], true, false)
	r.R.fresh = true
	st.assume(tEq(r.Len, tAdd(a.Len, b.Len)))
	st.assume(tEq(r.Off, "0"))
	i := ex.decls.fresh("ci", SInt)
	_ = i
	m := st.mem[r.R][0]
	st.assume(tForall("ci_", tImp(tAnd(tLe("0", "ci_"), tLt("ci_", a.Len)),
		tEq(tSel(m, "ci_"), tSel(st.mem[a.R][0], tIdx(a.Off, "ci_"))))))
	st.assume(tForall("ci_", tImp(tAnd(tLe("0", "ci_"), tLt("ci_", b.Len)),
		tEq(tSel(m, tIdx(a.Len, "ci_")), tSel(st.mem[b.R][0], tIdx(b.Off, "ci_"))))))
	return r
}

// equal builds the SMT equality of two Go values of static type t.
func (f *frame) equal(st *State, a, b Val, t types.Type) T {
	ex := f.ex
	switch x := a.(type) {
	case VInt:
		return tEq(x.T, b.(VInt).T)
	case VBool:
		return tEq(x.T, b.(VBool).T)
	case VRef:
		switch y := b.(type) {
		case VRef:
			return tEq(x.T, y.T)
		case VNilPtr:
			return tEq(x.T, "0")
		}
	case VOpaque:
		if y, ok := b.(VOpaque); ok {
			return tEq(x.T, y.T)
		}
	case VFunc:
		if y, ok := b.(VFunc); ok {
			return tEq(x.ID, y.ID)
		}
	case VIface:
		if y, ok := b.(VIface); ok {
			// comparison with nil interface / between error values: by identity
			return tEq(x.ID, y.ID)
		}
	case VCellPtr:
		if y, ok := b.(VCellPtr); ok {
			if x.C == y.C {
				return "true"
			}
			return "false"
		}
		return "false"
	case VSlice:
		y := b.(VSlice)
		if x.Str {
			return f.seqEq(st, x, y)
		}
		// slice == nil
		if y.Len == "0" && y.Cap == "0" {
			return ex.isNilSlice(st, x)
		}
		if x.Len == "0" && x.Cap == "0" {
			return ex.isNilSlice(st, y)
		}
	case VStruct:
		y := b.(VStruct)
		u := t.Underlying().(*types.Struct)
		var cs []T
		for i := range x.F {
			cs = append(cs, f.equal(st, x.F[i], y.F[i], u.Field(i).Type()))
		}
		return tAnd(cs...)
	}
	ex.note(fmt.Sprintf("out-of-subset: equality on %T/%T in %s", a, b, f.key))
	return ex.decls.fresh("eq", SBool)
}

// nil-ness of a slice is abstracted: a slice is nil iff cap == 0 (a non-nil zero-cap
// slice is not distinguished; the library only tests len).
func (ex *Exec) isNilSlice(st *State, s VSlice) T {
	return tEq(s.Cap, "0")
}

// seqEq: extensional equality of two byte sequences.
func (f *frame) seqEq(st *State, a, b VSlice) T {
	return seqEqTerms(f.ex, st, a, b)
}

func seqEqTerms(ex *Exec, st *State, a, b VSlice) T {
	ma, mb := st.mem[a.R][0], st.mem[b.R][0]
	if b.HasLit && !a.HasLit {
		a, b = b, a
		ma, mb = mb, ma
	}
	if a.HasLit {
		cs := []T{tEq(b.Len, num(int64(len(a.Lit))))}
		if b.HasLit {
			if string(a.Lit) == string(b.Lit) {
				return "true"
			}
			return "false"
		}
		for i, c := range a.Lit {
			cs = append(cs, tEq(tSel(mb, tIdx(b.Off, num(int64(i)))), num(int64(c))))
		}
		return tAnd(cs...)
	}
	return tAnd(tEq(a.Len, b.Len), tForall("qe_", tImp(tAnd(tLe("0", "qe_"), tLt("qe_", a.Len)),
		tEq(tSel(ma, tIdx(a.Off, "qe_")), tSel(mb, tIdx(b.Off, "qe_"))))))
}

func (f *frame) boundsOb(st *State, ins ssa.Instruction, idx, ln T) {
	if f.ex.mode.Safety {
		f.ob(st, f.ord("index", ins), ins.Pos(), tAnd(tLe("0", idx), tLt(idx, ln)), "index out of range")
	}
	// after the check, execution continues only if in range
	st.assume(tAnd(tLe("0", idx), tLt(idx, ln)))
}

func (f *frame) indexAddr(st *State, x *ssa.IndexAddr) Val {
	base := f.val(st, x.X)
	idx := f.val(st, x.Index).(VInt).T
	var s VSlice
	switch b := base.(type) {
	case VSlice:
		s = b
	case VCellPtr, VGlobalPtr, VFieldPtr:
		// pointer to array
		s = f.load(st, base, x.X.Type().(*types.Pointer).Elem(), x.Pos(), nil).(VSlice)
	default:
		panic(fmt.Sprintf("indexAddr base %T in %s", base, f.key))
	}
	f.boundsOb(st, x, idx, s.Len)
	return VElemPtr{S: s, Idx: idx}
}

func (f *frame) sliceOp(st *State, x *ssa.Slice) Val {
	ex := f.ex
	base := f.val(st, x.X)
	var s VSlice
	switch b := base.(type) {
	case VSlice:
		s = b
	case VCellPtr, VGlobalPtr, VFieldPtr:
		s = f.load(st, base, x.X.Type().(*types.Pointer).Elem(), x.Pos(), nil).(VSlice)
	default:
		panic(fmt.Sprintf("slice base %T", base))
	}
	lo := T("0")
	if x.Low != nil {
		lo = f.val(st, x.Low).(VInt).T
	}
	hi := s.Len
	if x.High != nil {
		hi = f.val(st, x.High).(VInt).T
	}
	limit := s.Cap
	what := "slice bounds out of range (cap)"
	if s.Str {
		limit = s.Len
		what = "slice bounds out of range (string)"
	}
	if s.R.strict && !s.Str && ex.mode.Safety {
		// the strict rule, as an obligation of its own kind: memory between len and cap of a caller's,
		// global or pooled slice holds bytes of earlier uses; extending a view into it is not a panic in
		// Go but lets a detection see (or overwrite) data that is not its input
		f.ob(st, f.ord("slice.stale", x), x.Pos(), tLe(hi, s.Len), "re-slicing beyond len of input/global/pooled memory (stale contents of earlier uses)")
		st.assume(tLe(hi, s.Len))
	}
	goal := tAnd(tLe("0", lo), tLe(lo, hi), tLe(hi, limit))
	var mx T
	if x.Max != nil {
		mx = f.val(st, x.Max).(VInt).T
		goal = tAnd(goal, tLe(hi, mx), tLe(mx, s.Cap))
	}
	if ex.mode.Safety {
		f.ob(st, f.ord("slice", x), x.Pos(), goal, what)
	}
	st.assume(goal)
	out := VSlice{R: s.R, Elem: s.Elem, Off: tAdd(s.Off, lo), Len: tSub(hi, lo), Str: s.Str}
	if s.Str {
		out.Cap = out.Len
	} else if mx != "" {
		out.Cap = tSub(mx, lo)
	} else {
		out.Cap = tSub(s.Cap, lo)
	}
	if !s.HasLit && isByteElem(s.Elem) {
		if l, ok := st.lits[s.R]; ok {
			if o, isn := isNum(s.Off); isn && o.Sign() == 0 {
				if n, isn2 := isNum(s.Len); isn2 && n.IsInt64() && n.Int64() <= int64(len(l)) {
					lit := make([]byte, n.Int64())
					for i := range lit {
						lit[i] = byte(l[i])
					}
					s.Lit = lit
					s.HasLit = true
				}
			}
		}
	}
	if s.HasLit {
		l, ok1 := isNum(lo)
		h, ok2 := isNum(hi)
		if ok1 && ok2 && l.IsInt64() && h.IsInt64() && l.Int64() >= 0 && h.Int64() <= int64(len(s.Lit)) && l.Int64() <= h.Int64() {
			out.Lit = s.Lit[l.Int64():h.Int64()]
			out.HasLit = true
		}
	}
	return out
}

func (f *frame) fieldAddr(st *State, x *ssa.FieldAddr) Val {
	ex := f.ex
	base := f.val(st, x.X)
	switch b := base.(type) {
	case VRef:
		if ex.mode.Safety {
			f.ob(st, f.ord("nil", x), x.Pos(), tNe(b.T, "0"), "nil pointer dereference (field access)")
		}
		st.assume(tNe(b.T, "0"))
		f.lockAccess(st, b, x)
		if in, ok := ex.embeddedType(b.St, x.Field); ok {
			return VRef{embRef(b.T, x.Field), in}
		}
		return VFieldPtr{Ref: b.T, St: b.St, Field: x.Field}
	case VCellPtr:
		return VCellPtr{C: b.C, Path: append(append([]int(nil), b.Path...), x.Field)}
	case VElemPtr:
		return VElemPtr{S: b.S, Idx: b.Idx, Path: append(append([]int(nil), b.Path...), x.Field)}
	case VGlobalPtr:
		v := ex.prog.globalLoad(ex, st, b.G)
		c := ex.newCell("gcopy", b.G.Type().(*types.Pointer).Elem())
		st.cells[c] = v
		return VCellPtr{C: c, Path: []int{x.Field}}
	case VOpaque:
		ex.note(fmt.Sprintf("out-of-subset: field of opaque pointer (%s) in %s", b.Typ, f.key))
		c := ex.newCell("opq", x.Type().(*types.Pointer).Elem())
		st.cells[c] = ex.freshVal(st, "opqf", x.Type().(*types.Pointer).Elem(), true)
		return VCellPtr{C: c}
	}
	panic(fmt.Sprintf("fieldAddr base %T in %s", base, f.key))
}

func (f *frame) convert(st *State, x *ssa.Convert) Val {
	ex := f.ex
	v := f.val(st, x.X)
	from, to := x.X.Type(), x.Type()
	if vi, ok := v.(VInt); ok {
		if bits, signed, ok := intInfo(to); ok {
			fb, fs, _ := intInfo(from)
			// widening or same-range conversions are the identity
			if (fs == signed && bits >= fb) || (!fs && signed && bits > fb) {
				return vi
			}
			if c, isn := isNum(vi.T); isn {
				m := pow2(bits)
				w := new(big.Int).Mod(c, m)
				if signed && w.Cmp(pow2(bits-1)) >= 0 {
					w.Sub(w, m)
				}
				return VInt{numBig(w)}
			}
			r := tModC(vi.T, pow2(bits))
			if signed {
				r = tIte(tGe(r, numBig(pow2(bits-1))), tSub(r, numBig(pow2(bits))), r)
			}
			d := ex.decls.fresh("conv", SInt)
			st.assume(tEq(d, r))
			st.assume(rangeFact(to, d))
			return VInt{d}
		}
		if isStringType(to) {
			// string(rune)
			ex.note("out-of-subset: string(rune) in " + f.key)
			return ex.freshVal(st, "runestr", to, false)
		}
	}
	if vs, ok := v.(VSlice); ok {
		// string <-> []byte : a copy with equal contents; modelled as a view of the same (immutable) bytes
		if isStringType(to) && !vs.Str {
			return f.copyBytes(st, vs, true)
		}
		if !isStringType(to) && vs.Str {
			return f.copyBytes(st, vs, false)
		}
		return vs
	}
	ex.note(fmt.Sprintf("out-of-subset: convert %s -> %s in %s", from, to, f.key))
	return ex.freshVal(st, "conv", to, true)
}

// copyBytes models string([]byte) / []byte(string): a fresh region with the same contents.
func (f *frame) copyBytes(st *State, s VSlice, toStr bool) Val {
	ex := f.ex
	if s.HasLit {
		return ex.litSlice(st, s.Lit, toStr)
	}
	r := ex.newRegion("copy", false, true)
	// the copy keeps the offset so that contents coincide without quantifiers; the region is distinct,
	// so later writes to one are not seen through the other.
	st.mem[r] = []T{st.mem[s.R][0]}
	out := VSlice{R: r, Elem: s.Elem, Off: s.Off, Len: s.Len, Cap: s.Len, Str: toStr}
	return out
}

func (f *frame) typeAssert(st *State, x *ssa.TypeAssert) {
	ex := f.ex
	v := f.val(st, x.X)
	iv, _ := v.(VIface)
	if iv.Dyn != nil && types.Identical(iv.Dyn, x.AssertedType) {
		if x.CommaOk {
			st.regs[x] = VTuple{[]Val{iv.V, VBool{"true"}}}
		} else {
			st.regs[x] = iv.V
		}
		return
	}
	if info, has := st.ghost["xmltok:"+iv.ID].(VTuple); has && x.CommaOk && x.AssertedType.String() == "encoding/xml.ProcInst" {
		// token returned by the modelled (*xml.Decoder).RawToken: a ProcInst when the document has a declaration
		ok := ex.decls.fresh("taok", SBool)
		st.assume(tImp(info.E[0].(VBool).T, ok))
		val := ex.freshVal(st, "ta", x.AssertedType, true)
		if vs, isStruct := val.(VStruct); isStruct {
			u := x.AssertedType.Underlying().(*types.Struct)
			for i := 0; i < u.NumFields(); i++ {
				if u.Field(i).Name() == "Inst" {
					vs.F[i] = info.E[1]
				}
			}
			val = vs
		}
		st.regs[x] = VTuple{[]Val{val, VBool{ok}}}
		return
	}
	if x.CommaOk {
		ok := ex.decls.fresh("taok", SBool)
		st.regs[x] = VTuple{[]Val{ex.freshVal(st, "ta", x.AssertedType, true), VBool{ok}}}
		ex.note("abstracted: comma-ok type assertion with unknown dynamic type in " + f.key)
		return
	}
	if ex.mode.Safety {
		f.ob(st, f.ord("assert", x), x.Pos(), "false", "type assertion on value of unknown dynamic type")
	}
	st.regs[x] = ex.freshVal(st, "ta", x.AssertedType, true)
}

func (f *frame) lookup(st *State, x *ssa.Lookup) {
	base := f.val(st, x.X)
	if s, ok := base.(VSlice); ok && s.Str {
		idx := f.val(st, x.Index).(VInt).T
		f.boundsOb(st, x, idx, s.Len)
		st.regs[x] = f.readElem(st, s, idx)
		return
	}
	// map lookup
	f.mapLookup(st, x, base)
}

func (f *frame) mapUpdate(st *State, x *ssa.MapUpdate) {
	ex := f.ex
	m, ok := f.val(st, x.Map).(VMap)
	k, isStr := f.val(st, x.Key).(VSlice)
	if !ok || !isStr || !k.HasLit || m.Unknown {
		ex.note("out-of-subset: map update with non-literal key in " + f.key)
		return
	}
	nm := VMap{ID: m.ID, Typ: m.Typ, Keys: append([]string(nil), m.Keys...), Vals: append([]Val(nil), m.Vals...)}
	v := f.val(st, x.Value)
	found := false
	for i, kk := range nm.Keys {
		if kk == string(k.Lit) {
			nm.Vals[i] = v
			found = true
		}
	}
	if !found {
		nm.Keys = append(nm.Keys, string(k.Lit))
		nm.Vals = append(nm.Vals, v)
	}
	// maps are reference values: update every holder of this map on the path
	f.replaceMap(st, m.ID, nm)
}

func (f *frame) replaceMap(st *State, id T, nm VMap) {
	for k, v := range st.regs {
		if m, ok := v.(VMap); ok && m.ID == id {
			st.regs[k] = nm
		}
	}
	for k, v := range st.cells {
		if m, ok := v.(VMap); ok && m.ID == id {
			st.cells[k] = nm
		}
	}
}

func (f *frame) mapLookup(st *State, x *ssa.Lookup, base Val) {
	ex := f.ex
	vt := x.X.Type().Underlying().(*types.Map).Elem()
	m, ok := base.(VMap)
	k, isStr := f.val(st, x.Index).(VSlice)
	if !ok || m.Unknown || !isStr {
		ex.note("abstracted: map lookup (result unconstrained) in " + f.key)
		v := ex.freshVal(st, "maplk", vt, true)
		if x.CommaOk {
			st.regs[x] = VTuple{[]Val{v, VBool{ex.decls.fresh("mapok", SBool)}}}
		} else {
			st.regs[x] = v
		}
		return
	}
	// key equality conditions against each literal key
	conds := make([]T, len(m.Keys))
	for i, kk := range m.Keys {
		lit := ex.litSlice(st, []byte(kk), true)
		conds[i] = seqEqTerms(ex, st, k, lit)
	}
	// concrete hit / miss
	for i, c := range conds {
		if c == "true" {
			if x.CommaOk {
				st.regs[x] = VTuple{[]Val{m.Vals[i], VBool{"true"}}}
			} else {
				st.regs[x] = m.Vals[i]
			}
			return
		}
	}
	var alts []Val
	var cs []T
	for i, c := range conds {
		if c == "false" {
			continue
		}
		alts = append(alts, m.Vals[i])
		cs = append(cs, c)
	}
	none := tNot(tOr(cs...))
	alts = append(alts, zeroVal(ex, st, vt))
	cs = append(cs, none)
	var res Val
	if len(alts) == 1 {
		res = alts[0]
	} else {
		// guarded merge: exactly one condition holds (keys are distinct literals)
		saved := st.facts
		var rp []retPath
		for range alts {
			rp = append(rp, retPath{st: st})
		}
		res = ex.mergeVals(st, cs, alts, vt, "maplk", rp)
		_ = saved
	}
	if x.CommaOk {
		st.regs[x] = VTuple{[]Val{res, VBool{tNot(none)}}}
	} else {
		st.regs[x] = res
	}
}
func (ex *Exec) frontierOf(st *State) T {
	if st.frontier == "" {
		return ex.heapTop()
	}
	return st.frontier
}
