package main

// `govc check <Cxx>`: decide one property. Obligations are attributed to properties by the
// labels of the contract clauses they come from (a label mentions the ids it serves, e.g.
// [C10_stack_restored], [C08C09_J2]); runtime-check obligations (index, slice, nil, overflow,
// termination) and unlabeled support clauses belong to C01.

import (
	"encoding/json"
	"flag"
	"fmt"
	"os"
	"path/filepath"
	"regexp"
	"runtime"
	"sort"
	"strings"
	"sync"
	"time"
)

var verifRoot = "/verif"

// outRoot: where evidence and replay files go (GOVC_OUT redirects them, used when several
// trees are checked concurrently by the seeded-change matrix)
func outRoot() string {
	if o := os.Getenv("GOVC_OUT"); o != "" {
		return o
	}
	return verifRoot
}

type PropConfig struct {
	ID        string   `json:"id"`
	Level     string   `json:"level"`
	Functions []string `json:"functions"`         // regexps over function keys; empty: functions whose contract mentions the id
	ExtraFns  []string `json:"extra_functions"`   // regexps over function keys verified in addition to the default set
	Extra     []string `json:"extra_obligations"` // regexps over obligation names additionally attributed
	Exclude   []string `json:"exclude_obligations"`
	Trusted   []string `json:"trusted_base"`
	Notes     []string `json:"assumptions"`
	Bounded   []string `json:"bounded"`
}

type KnownFinding struct {
	Property   string `json:"property"`
	Obligation string `json:"obligation"` // obligation name (exact)
	Witness    string `json:"witness,omitempty"`
	What       string `json:"what"`
	Status     string `json:"status"` // finding | fixed
	Commit     string `json:"commit,omitempty"`
}

var reProp = regexp.MustCompile(`C\d\d`)

var runtimeKinds = regexp.MustCompile(`#(index|slice|nil|nilfunc|div|make|assert|panic|ovf|frame\.input|decreases\.(loop|call))\[`)

// propsOfObligation returns the property ids an obligation serves.
func propsOfObligation(name string) []string {
	i := strings.Index(name, "#")
	kind := name[i+1:]
	set := map[string]bool{}
	// label = last dotted component(s) after the bracketed ordinal
	for _, m := range reProp.FindAllString(kind, -1) {
		set[m] = true
	}
	if len(set) == 0 {
		set["C01"] = true
	}
	if strings.HasPrefix(kind, "frame[") || strings.HasPrefix(kind, "frame.input") || strings.HasPrefix(kind, "slice.stale") {
		set["C04"] = true
	}
	if strings.HasPrefix(kind, "lock") {
		set["C06"] = true
		delete(set, "C01")
	}
	if strings.HasPrefix(kind, "decreases.call") {
		set["C16"] = true
		set["C01"] = true
	}
	if strings.HasPrefix(kind, "pool.") {
		set["C16"] = true
		set["C04"] = true
		set["C01"] = true // termination of the scanner rests on the pooled cap (C16's measure uses it)
	}
	var out []string
	for k := range set {
		out = append(out, k)
	}
	sort.Strings(out)
	return out
}

func loadPropConfigs() map[string]*PropConfig {
	out := map[string]*PropConfig{}
	data, err := os.ReadFile(filepath.Join(verifRoot, "props.json"))
	if err != nil {
		return out
	}
	var list []*PropConfig
	if err := json.Unmarshal(data, &list); err != nil {
		fmt.Fprintln(os.Stderr, "govc: props.json:", err)
		os.Exit(2)
	}
	for _, p := range list {
		out[p.ID] = p
	}
	return out
}

func loadKnown() []KnownFinding {
	data, err := os.ReadFile(filepath.Join(verifRoot, "known_findings.json"))
	if err != nil {
		return nil
	}
	var k []KnownFinding
	if err := json.Unmarshal(data, &k); err != nil {
		fmt.Fprintln(os.Stderr, "govc: known_findings.json:", err)
		os.Exit(2)
	}
	return k
}

type Baseline map[string][]string // property -> discharged obligation names

func loadBaseline() Baseline {
	b := Baseline{}
	data, err := os.ReadFile(filepath.Join(verifRoot, "baseline_obligations.json"))
	if err == nil {
		json.Unmarshal(data, &b)
	}
	return b
}

func matchAny(pats []string, s string) bool {
	for _, p := range pats {
		if ok, _ := regexp.MatchString(p, s); ok {
			return true
		}
	}
	return false
}

func cmdCheck(args []string) int {
	if len(args) < 1 {
		usage()
	}
	id := args[0]
	fs := flag.NewFlagSet("check", flag.ExitOnError)
	tier := fs.String("tier", "quick", "quick|thorough")
	writeBaseline := fs.Bool("write-baseline", false, "record discharged obligations into baseline_obligations.json (developer use only)")
	verbose := fs.Bool("v", false, "verbose")
	fs.Parse(args[1:])
	if t := os.Getenv("VERIF_TIER"); t != "" && (t == "quick" || t == "thorough") {
		*tier = t
	}
	seed := 0
	fmt.Sscan(os.Getenv("VERIF_SEED"), &seed)
	start := time.Now()
	cfgs := loadPropConfigs()
	cfg := cfgs[id]
	if cfg == nil {
		fmt.Fprintf(os.Stderr, "govc: property %s is not configured in props.json\n", id)
		return 2
	}
	p := mustLoad()
	res := runProperty(p, cfg, *tier, *verbose)
	res.Seed = seed
	res.Wall = time.Since(start).Seconds()
	code := res.report(p, cfg, *tier, *writeBaseline)
	return code
}

type PropResult struct {
	Reports     []*FnReport
	Obs         []*Obligation // attributed to the property
	Covers      []*Obligation
	Summ        []*obSummary
	Lemmas      []*obSummary
	Seed        int
	Wall        float64
	SolverSec   float64
	Broken      []string
	Bounded     []map[string]any
	EngineFail  []engineFail
	EngineNotes []string
	RelNotes    []string
	Retried     int
}

type engineFail struct{ Fn, Why string }

// targetFunctions: functions to execute for a property.
// newInternal: an unexported function without a contract that did not exist when the baseline was
// written. It is not verified as an entry point with arbitrary arguments (its callers establish
// what it may assume, and a nil receiver passed by a test harness is not a reachable state); its
// body is verified wherever it is called, because contract-less callees are executed in place.
func newInternal(p *Program, k string, known map[string]bool) bool {
	fn := p.funcs[k]
	if fn == nil || p.contracts[k] != nil || known[k] {
		return false
	}
	top := fn
	for top.Parent() != nil {
		top = top.Parent()
	}
	if known[p.keyOf(top)] && top != fn {
		return false // closure of a known function
	}
	return !top.Object().Exported()
}

func targetFunctions(p *Program, cfg *PropConfig) []string {
	var keys []string
	known := map[string]bool{}
	for _, names := range loadBaseline() {
		for _, n := range names {
			if i := strings.Index(n, "#"); i > 0 {
				known[n[:i]] = true
			}
		}
	}
	for _, k := range p.sortedKeys() {
		if len(known) > 0 && newInternal(p, k, known) {
			continue
		}
		if len(cfg.Functions) > 0 {
			if matchAny(cfg.Functions, k) {
				keys = append(keys, k)
			}
			continue
		}
		if matchAny(cfg.ExtraFns, k) {
			keys = append(keys, k)
			continue
		}
		con := p.contracts[k]
		if con == nil {
			continue
		}
		if contractMentions(con, cfg.ID) {
			keys = append(keys, k)
		}
	}
	return keys
}

func contractMentions(c *Contract, id string) bool {
	for _, cl := range c.Requires {
		if strings.Contains(cl.Label, id) {
			return true
		}
	}
	for _, cl := range c.Ensures {
		if strings.Contains(cl.Label, id) {
			return true
		}
	}
	for _, ls := range c.Loops {
		for _, cl := range ls.Invariants {
			if strings.Contains(cl.Label, id) {
				return true
			}
		}
	}
	return false
}

// taintByNewCode: every obligation is asserted and then assumed for the rest of its path. An
// obligation that was never discharged on the unchanged tree (it belongs to code the change
// introduced) is not reported as a violation unless its counterexample replays, so whatever was
// proved *after* it on the same path rests on an unproved assumption and is not counted as
// discharged. Obligations of the baseline (any property) are reported by their own checks.
func taintByNewCode(mine []*Obligation, killers []*Obligation, opt dischargeOpts, anyBase map[string]bool) {
	var unknown []*Obligation
	seen := map[*Obligation]bool{}
	// a path that ends at an assertion which is constantly false was not followed to the function's
	// returns: if that assertion belongs to new code and is not refuted as unreachable, nothing
	// claimed about the function is established on that path
	var newKillers []*Obligation
	for _, k := range killers {
		if !anyBase[normOb(k.Name)] {
			newKillers = append(newKillers, k)
			if k.Result == nil {
				unknown = append(unknown, k)
				seen[k] = true
			}
		}
	}
	for _, o := range mine {
		for n := o.prior; n != nil; n = n.prev {
			p := n.ob
			if seen[p] {
				break // the rest of the chain was visited through another obligation
			}
			seen[p] = true
			if p.Result == nil {
				unknown = append(unknown, p)
			}
		}
	}
	if os.Getenv("GOVC_DEBUG_TAINT") != "" {
		fmt.Fprintf(os.Stderr, "taint: %d mine, %d seen priors, %d unknown\n", len(mine), len(seen), len(unknown))
		for _, u := range unknown {
			fmt.Fprintln(os.Stderr, "   ", u.Name)
		}
	}
	if len(unknown) == 0 {
		return
	}
	discharge(unknown, opt)
	for _, k := range newKillers {
		if k.Result != nil && k.Result.Status != "unsat" {
			for _, o := range mine {
				if o.Result != nil && o.Result.Status == "unsat" && o != k {
					o.Result = &SolverResult{Status: "unknown", All: map[string]string{},
						Raw: "a path of this function ends at an assertion that is not discharged and lies in code the baseline does not cover: " + k.Name + " (" + k.Desc + "); the function was not verified on that path"}
				}
			}
			return
		}
	}
	// an obligation proved after an undischarged assertion is proved again without that assertion's
	// assumption: only if that fails does it depend on it
	type redo struct {
		o, copy *Obligation
		why     *Obligation
	}
	var redos []redo
	for _, o := range mine {
		if o.Result == nil || o.Result.Status != "unsat" {
			continue
		}
		bad := map[T]bool{}
		var first *Obligation
		for n := o.prior; n != nil; n = n.prev {
			p := n.ob
			if p.Result != nil && p.Result.Status != "unsat" {
				bad[p.Goal] = true
				first = p
			}
		}
		if first == nil {
			continue
		}
		c := *o
		c.Result = nil
		c.Facts = nil
		for _, f := range o.Facts {
			if !bad[f] {
				c.Facts = append(c.Facts, f)
			}
		}
		redos = append(redos, redo{o, &c, first})
	}
	if len(redos) == 0 {
		return
	}
	var again []*Obligation
	for _, r := range redos {
		again = append(again, r.copy)
	}
	discharge(again, opt)
	for _, r := range redos {
		if r.copy.Result != nil && r.copy.Result.Status == "unsat" {
			continue // independent of the undischarged assertion
		}
		r.o.Result = &SolverResult{Status: "unknown", All: map[string]string{},
			Raw: "proved only under an assumption that is itself not discharged: " + r.why.Name + " (" + r.why.Desc + "), asserted earlier on the same path; without that assumption the solver answers " + statusOf(r.copy)}
	}
}

func statusOf(o *Obligation) string {
	if o.Result == nil {
		return "nothing"
	}
	return o.Result.Status
}

// universalKind: obligation kinds that state a property directly, whatever function they arise in:
// a store or in-place append into the caller's buffer (C04), and the lock discipline of the guarded
// tree (C06: protocol, guarded reads/writes, read-modify-write atomicity, no in-place append into
// shared memory without the write lock). They are claimed also in code the baseline does not cover.
func universalKind(name string) bool {
	// #frame[k]: a heap store outside the assigns clause of the function under verification (raised
	// under the name of a helper when the store sits in one that is executed in place): callers rely
	// on that clause, so it is claimed wherever the store is
	return strings.Contains(name, "#frame.input") || strings.Contains(name, "#lock") || strings.Contains(name, "#frame[") || strings.Contains(name, "#slice.stale")
}

// loadFactor is max(1, 1-minute load average / cores), capped at 6.
func loadFactor() float64 {
	data, err := os.ReadFile("/proc/loadavg")
	if err != nil {
		return 1
	}
	var l1 float64
	fmt.Sscanf(string(data), "%f", &l1)
	f := l1 / float64(runtime.NumCPU())
	if f < 1 {
		return 1
	}
	if f > 6 {
		return 6
	}
	return f
}

func runProperty(p *Program, cfg *PropConfig, tier string, verbose bool) *PropResult {
	res := &PropResult{}
	keys := targetFunctions(p, cfg)
	opt := dischargeOpts{timeoutMs: 10000, workers: 16}
	if tier == "thorough" {
		opt = dischargeOpts{timeoutMs: 60000, workers: 16, all: true}
	}
	// wall-clock solver caps are scaled by the machine load so that a busy machine (several checks
	// running side by side) does not turn discharged obligations into time-outs
	lf := loadFactor()
	opt.timeoutMs = int(float64(opt.timeoutMs) * lf)
	anyBase := map[string]bool{}
	for _, names := range loadBaseline() {
		for _, n := range names {
			anyBase[normOb(n)] = true
		}
	}
	solveStart := time.Now()
	type fnOut struct {
		rep  *FnReport
		mine []*Obligation
	}
	outs := make([]fnOut, len(keys))
	var wg sync.WaitGroup
	fsem := make(chan struct{}, 6)
	for i, k := range keys {
		i, k := i, k
		wg.Add(1)
		fsem <- struct{}{}
		go func() {
			defer wg.Done()
			defer func() { <-fsem }()
			fn := p.funcs[k]
			rep := p.genObligations(fn, ExecMode{Safety: true, Functional: true, Overflow: true}, nil)
			var mine []*Obligation
			for _, o := range rep.Obs {
				if matchAny(cfg.Exclude, o.Name) {
					continue
				}
				ps := propsOfObligation(o.Name)
				take := matchAny(cfg.Extra, o.Name)
				for _, x := range ps {
					if x == cfg.ID {
						take = true
					}
				}
				if take {
					mine = append(mine, o)
				}
			}
			if rep.Panic == "" && rep.Aborted == "" {
				discharge(mine, opt)
				taintByNewCode(mine, rep.Killers, opt, anyBase)
			} else {
				// an incompletely explored function proves nothing
				for _, o := range mine {
					o.Result = &SolverResult{Status: "unknown", Raw: "function not fully explored: " + rep.Panic + rep.Aborted, All: map[string]string{}}
				}
			}
			// vacuity covers for every executed function
			dischargeCovers(rep.Covers, dischargeOpts{timeoutMs: 3000, workers: 16})
			outs[i] = fnOut{rep, mine}
		}()
	}
	wg.Wait()
	// claimed obligations that timed out are retried a few at a time with a longer cap (bounded budget)
	{
		inBaseNorm := map[string]bool{}
		for _, n := range loadBaseline()[cfg.ID] {
			inBaseNorm[normOb(n)] = true
		}
		var retry []*Obligation
		for _, o := range outs {
			for _, ob := range o.mine {
				if ob.Result != nil && ob.Result.Status == "timeout" && inBaseNorm[normOb(ob.Name)] {
					retry = append(retry, ob)
				}
			}
		}
		deadline := time.Now().Add(240 * time.Second)
		for i := 0; i < len(retry) && time.Now().Before(deadline); i += 4 {
			j := i + 4
			if j > len(retry) {
				j = len(retry)
			}
			for _, ob := range retry[i:j] {
				ob.Result = nil
			}
			discharge(retry[i:j], dischargeOpts{timeoutMs: opt.timeoutMs * 4, workers: 4, all: opt.all})
			res.Retried += j - i
		}
	}
	for i, k := range keys {
		rep := outs[i].rep
		res.Reports = append(res.Reports, rep)
		if rep.Panic != "" {
			res.EngineFail = append(res.EngineFail, engineFail{k, "engine could not model the function: " + truncate(rep.Panic, 400)})
		}
		if rep.Aborted != "" {
			res.EngineFail = append(res.EngineFail, engineFail{k, "engine gave up: " + rep.Aborted})
		}
		res.Obs = append(res.Obs, outs[i].mine...)
		res.Covers = append(res.Covers, rep.Covers...)
		if verbose {
			printReport(rep, false)
		}
	}
	if cfg.ID == "C17" {
		robs, notes, err := p.relObligations()
		if err != nil {
			res.Broken = append(res.Broken, "relational mode: "+err.Error())
		}
		discharge(robs, opt)
		for i, o := range robs {
			if o.Result != nil && o.Result.Status != "unsat" && o.relAlt != nil {
				alt := o.relAlt()
				discharge([]*Obligation{alt}, opt)
				if alt.Result != nil && alt.Result.Status != "unsat" && alt.relAlt != nil {
					alt = o.relAlt()
					discharge([]*Obligation{alt}, opt)
				}
				if alt.Result != nil && alt.Result.Status == "unsat" {
					robs[i] = alt
				} else if alt.Result != nil {
					o.Desc += fmt.Sprintf(" [alternative over all non-text root detectors: %s %v]", alt.Result.Status, alt.Result.All)
				}
			}
		}
		res.Obs = append(res.Obs, robs...)
		res.RelNotes = notes
	}
	// program-level obligations (syntactic scans)
	for _, o := range p.programObligations(cfg.ID) {
		res.Obs = append(res.Obs, o)
	}
	// lemmas attributed to the property
	res.Lemmas = p.proveLemmas(cfg.ID, opt)
	res.SolverSec = time.Since(solveStart).Seconds()
	res.Summ = summarize(res.Obs)
	return res
}

func (res *PropResult) report(p *Program, cfg *PropConfig, tier string, writeBaseline bool) int {
	known := loadKnown()
	baseline := loadBaseline()
	inBase := map[string]bool{}
	inBaseNorm := map[string]bool{}
	for _, n := range baseline[cfg.ID] {
		inBase[n] = true
		inBaseNorm[normOb(n)] = true
	}
	if tier == "thorough" {
		// obligations that need 3..20 s on the unchanged tree are claimed only under the thorough cap
		for _, n := range baseline[cfg.ID+"@thorough"] {
			inBase[n] = true
			inBaseNorm[normOb(n)] = true
		}
	}
	all := append(append([]*obSummary(nil), res.Summ...), res.Lemmas...)
	// a function the engine could not execute discharges nothing: every obligation of that
	// function that was discharged on the unchanged tree is now undecided
	var engineNotes []string
	for _, ef := range res.EngineFail {
		have := map[string]bool{}
		for _, s := range all {
			have[s.Name] = true
		}
		n := 0
		for name := range inBase {
			if strings.HasPrefix(name, ef.Fn+"#") {
				n++
				if have[name] {
					for _, s := range all {
						if s.Name == name {
							s.Status = "undecided"
							s.Desc += " [" + ef.Why + "]"
						}
					}
				} else {
					all = append(all, &obSummary{Name: name, Status: "undecided", Count: 1, Solver: map[string]int{}, Desc: ef.Why})
				}
			}
		}
		engineNotes = append(engineNotes, fmt.Sprintf("%s: %s (%d baseline obligations affected)", ef.Fn, ef.Why, n))
	}
	res.EngineNotes = engineNotes
	violations := 0
	var undecidedNew []string
	var discharged []string
	backends := map[string]int{}
	var vlines []string
	var knownPrinted []string
	replayDir := filepath.Join(outRoot(), "replays", cfg.ID)
	for _, s := range all {
		switch s.Status {
		case "discharged":
			discharged = append(discharged, s.Name)
			for k, v := range s.Solver {
				backends[k] += v
			}
			continue
		case "undecided":
			// ordinals shift when code is edited: an obligation is claimed if the same clause of the
			// same function (modulo ordinals) was discharged on the unchanged tree
			if !inBase[s.Name] && !inBaseNorm[normOb(s.Name)] && !universalKind(s.Name) {
				undecidedNew = append(undecidedNew, s.Name)
				continue
			}
		}
		// failed, or undecided although discharged on the unchanged tree
		if kf := findKnown(known, cfg.ID, s.Name); kf != nil && kf.Status == "finding" {
			knownPrinted = append(knownPrinted, fmt.Sprintf("KNOWN-FINDING: property=%s %s %s", cfg.ID, s.Name, kf.What))
			continue
		}
		os.MkdirAll(replayDir, 0o755)
		path := filepath.Join(replayDir, sanitize(s.Name)+".json")
		reproduced := writeReplay(p, cfg.ID, s, path)
		// a store into the memory of an input parameter is the property itself (C04: "the caller's
		// buffer is never modified") wherever the store sits, so a refuted #frame.input obligation is
		// claimed even in code the baseline does not cover
		universal := universalKind(s.Name)
		if !reproduced && !universal && !inBase[s.Name] && !inBaseNorm[normOb(s.Name)] {
			// an obligation that was never discharged on the unchanged tree (new code, or a clause
			// the engine never decided) and whose counterexample does not replay on the real code
			// is undecided, not a violation
			os.Remove(path)
			undecidedNew = append(undecidedNew, s.Name)
			continue
		}
		violations++
		line := fmt.Sprintf("VIOLATION property=%s replay=%s", cfg.ID, path)
		if !reproduced {
			line += " no-failing-input-found"
		}
		vlines = append(vlines, line)
		fmt.Printf("  obligation %s %s: %s\n", s.Name, s.Status, s.Desc)
	}
	vac := vacuousCovers(res.Covers)
	// a vacuous precondition cover means contradictory contracts: the check is broken, not green
	for _, v := range vac {
		if strings.HasSuffix(v, "#cover.pre") {
			res.Broken = append(res.Broken, "contradictory precondition: "+v)
		}
	}
	if len(all) == 0 {
		res.Broken = append(res.Broken, "no obligations generated for "+cfg.ID)
	}
	missing := []string{}
	have := map[string]bool{}
	for _, s := range all {
		have[s.Name] = true
	}
	for n := range inBase {
		if !have[n] {
			missing = append(missing, n)
		}
	}
	sort.Strings(missing)
	for _, l := range knownPrinted {
		fmt.Println(l)
	}
	for _, l := range vlines {
		fmt.Println(l)
	}
	writeEvidence(p, cfg, tier, res, all, discharged, undecidedNew, missing, backends, vac, knownPrinted, violations)
	if writeBaseline {
		// only obligations that discharge well under the quick cap are ever claimed
		var stable, slow []string
		for _, s := range all {
			if s.Status == "discharged" && s.MaxMs < 3000 {
				stable = append(stable, s.Name)
			} else if s.Status == "discharged" && s.MaxMs < 20000 {
				slow = append(slow, s.Name)
				fmt.Printf("  baseline: %s claimed in the thorough tier only (%d ms)\n", s.Name, s.MaxMs)
			} else if inBase[s.Name] {
				fmt.Printf("  baseline: dropping %s (%s, %d ms)\n", s.Name, s.Status, s.MaxMs)
			}
		}
		p.writeNames()
		sort.Strings(slow)
		if len(slow) > 0 {
			baseline[cfg.ID+"@thorough"] = slow
		} else {
			delete(baseline, cfg.ID+"@thorough")
		}
		baseline[cfg.ID] = stable
		sort.Strings(baseline[cfg.ID])
		data, _ := json.MarshalIndent(baseline, "", " ")
		os.WriteFile(filepath.Join(verifRoot, "baseline_obligations.json"), data, 0o644)
	}
	fmt.Printf("govc check %s [%s]: %d obligations, %d discharged, %d violations, %d known findings, %d undecided-unclaimed, %.1fs\n",
		cfg.ID, tier, len(all), len(discharged), violations, len(knownPrinted), len(undecidedNew), res.Wall)
	for _, n := range res.EngineNotes {
		fmt.Println("NOTE:", n)
	}
	if len(res.Broken) > 0 {
		for _, b := range res.Broken {
			fmt.Println("BROKEN:", b)
		}
		return 2
	}
	if violations > 0 {
		return 1
	}
	return 0
}

func findKnown(known []KnownFinding, prop, ob string) *KnownFinding {
	for i := range known {
		if known[i].Property == prop && known[i].Obligation == ob {
			return &known[i]
		}
	}
	return nil
}

func writeEvidence(p *Program, cfg *PropConfig, tier string, res *PropResult, all []*obSummary, discharged, undecided, missing []string,
	backends map[string]int, vac []string, knownPrinted []string, violations int) {
	fnSet := map[string]bool{}
	assumed := map[string]bool{}
	notes := map[string]bool{}
	inlined := map[string]bool{}
	usedCons := map[string]bool{}
	for _, r := range res.Reports {
		if p.contracts[r.Key] != nil {
			fnSet[r.Key] = true
		}
		for _, a := range r.Assumed {
			assumed[a] = true
		}
		for _, a := range r.Notes {
			notes[a] = true
		}
		for _, a := range r.Inlined {
			inlined[a] = true
		}
		for _, a := range r.UsedCons {
			usedCons[a] = true
		}
	}
	var samples []any
	for i, s := range all {
		if i%max(1, len(all)/8) == 0 && len(samples) < 10 {
			samples = append(samples, map[string]any{"obligation": s.Name, "status": s.Status, "instances": s.Count, "what": s.Desc, "at": s.Pos})
		}
	}
	if len(samples) == 0 {
		samples = append(samples, "none")
	}
	assumptions := append([]string{}, cfg.Notes...)
	assumptions = append(assumptions, sortedKeys(assumed)...)
	assumptions = append(assumptions,
		"machine.len48: 0 <= len(s) <= cap(s) <= 2^48 for every slice and string (linux/amd64)",
		"signed integer arithmetic is mathematical after its #ovf obligation is discharged; unsigned arithmetic wraps exactly",
		"go/ssa (x/tools v0.29.0) lowers the source faithfully; gc implements the same semantics")
	for _, a := range p.spec.Lemmas {
		if a.Axiom && strings.Contains(a.Name, cfg.ID) {
			assumptions = append(assumptions, "axiom "+a.Name+": "+a.Src)
		}
	}
	instances := 0
	for _, s := range all {
		instances += s.Count
	}
	level := cfg.Level
	if level == "" {
		level = "proof"
	}
	cov := map[string]any{
		"obligations":                    len(all) - len(undecided) - len(knownPrinted),
		"obligations_generated":          len(all),
		"discharged":                     len(discharged),
		"obligation_instances":           instances,
		"checker_cmd":                    fmt.Sprintf("/verif/bin/govc check %s -tier %s", cfg.ID, tier),
		"trusted_base":                   append([]string{"govc VC generator (/verif/govc)", "go/types + go/ssa v0.29.0 (NaiveForm)", "z3 4.8.12, z3 5.1.0, cvc5 1.0 (raced; disagreement = broken)"}, cfg.Trusted...),
		"samples":                        samples,
		"functions_executed":             len(res.Reports),
		"functions_under_contract":       sortedKeys(fnSet),
		"callee_contracts_used":          sortedKeys(usedCons),
		"inlined_callees":                sortedKeys(inlined),
		"discharged_by_backend":          backends,
		"solver_and_generation_sec":      res.SolverSec,
		"undecided_never_claimed":        undecided,
		"baseline_obligations_gone":      missing,
		"vacuous_cover_points":           vac,
		"abstractions_and_out_of_subset": sortedKeys(notes),
		"known_findings_printed":         knownPrinted,
		"functions_not_modelled":         res.EngineNotes,
		"bounded":                        cfg.Bounded,
		"renamed_identifiers_mapped":     p.renameNotes,
		"solver_caps":                    fmt.Sprintf("per-obligation wall-clock cap scaled by load factor %.2f; %d timed-out claimed obligations retried with a 4x cap", loadFactor(), res.Retried),
		"explanation":                    "each obligation is pathcondition ∧ ¬goal checked unsat by an SMT solver, per path of the real function's SSA, for all inputs and all loop iterations (loops are cut at invariants)",
	}
	if level != "proof" {
		cov["evaluations"] = instances
		cov["distinct_nontrivial"] = len(all)
		cov["rule"] = "one evaluation per obligation instance (path × clause); distinct = distinct obligation names"
	}
	ev := map[string]any{
		"property_id": cfg.ID, "tier": tier, "seed": res.Seed, "level": level, "coverage": cov,
		"assumptions": assumptions, "wall_s": res.Wall, "violations": violations,
	}
	os.MkdirAll(filepath.Join(outRoot(), "evidence"), 0o755)
	data, _ := json.MarshalIndent(ev, "", " ")
	os.WriteFile(filepath.Join(outRoot(), "evidence", cfg.ID+".json"), data, 0o644)
}

// writeReplay writes the replay file for a failed obligation and tries to reproduce the
// counterexample on the real code. Returns whether it was reproduced.
func writeReplay(p *Program, prop string, s *obSummary, path string) bool {
	rec := map[string]any{"property": prop, "obligation": s.Name, "status": s.Status, "what": s.Desc, "at": s.Pos}
	reproduced := false
	var outs []any
	for i, o := range s.Failing {
		if i >= 3 {
			break
		}
		item := map[string]any{"path": o.PathID, "solver_status": o.Result.Status, "solvers": o.Result.All, "goal": truncate(o.Goal, 2000)}
		if o.Result.Status == "sat" {
			rp := replayObligation(p, o)
			item["replay"] = rp
			if rp != nil && rp.Reproduced {
				reproduced = true
			}
		} else {
			item["solver_output"] = truncate(o.Result.Raw, 2000)
		}
		outs = append(outs, item)
	}
	rec["instances"] = outs
	data, _ := json.MarshalIndent(rec, "", " ")
	os.WriteFile(path, data, 0o644)
	return reproduced
}

var reOrd = regexp.MustCompile(`\[\d+\]`)

// normOb: obligation name with ordinals removed.
func normOb(name string) string { return reOrd.ReplaceAllString(name, "[*]") }
