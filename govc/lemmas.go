package main

// Axioms and lemmas: closed formulas over spec functions and ghost functions, stated in the
// contract files. Axioms are assumptions (listed in evidence). Lemmas are proved by the solver
// with no code; `induction n` splits a lemma into a base case (n = 0) and a step (n -> n+1).

import (
	"fmt"
	"sort"
	"strings"

	"golang.org/x/tools/go/ssa"
)

func (p *Program) lemmaByName(name string) *Lemma {
	for _, l := range p.spec.Lemmas {
		if l.Name == name {
			return l
		}
	}
	return nil
}

type lemmaVar struct {
	name, typ string
}

func lemmaVars(l *Lemma) []lemmaVar {
	var out []lemmaVar
	for _, v := range l.Vars {
		f := strings.Fields(v)
		t := "int"
		if len(f) > 1 {
			t = f[1]
		}
		out = append(out, lemmaVar{f[0], t})
	}
	return out
}

// bindLemmaVars binds the lemma's variables in env to symbols named prefix_<var>; returns the
// SMT binder list. subst optionally replaces the term of one integer variable.
func (p *Program) bindLemmaVars(ex *Exec, st *State, env *specEnv, l *Lemma, prefix string, declare bool, subst map[string]T) []string {
	var binders []string
	for _, v := range lemmaVars(l) {
		switch v.typ {
		case "bytes":
			m, o, n := prefix+v.name+"_m", prefix+v.name+"_o", prefix+v.name+"_n"
			if declare {
				ex.decls.named(m, SBytes)
				ex.decls.named(o, SInt)
				ex.decls.named(n, SInt)
			}
			binders = append(binders, "("+m+" "+SBytes+")", "("+o+" Int)", "("+n+" Int)")
			r := ex.newRegion("lv_"+v.name, true, false)
			st.mem[r] = []T{m}
			env.vars[v.name] = VSlice{R: r, Elem: byteType, Off: o, Len: n, Cap: n}
		case "bool":
			b := prefix + v.name
			if declare {
				ex.decls.named(b, SBool)
			}
			binders = append(binders, "("+b+" Bool)")
			env.vars[v.name] = VBool{b}
		default:
			x := prefix + v.name
			if declare {
				ex.decls.named(x, SInt)
			}
			binders = append(binders, "("+x+" Int)")
			t := T(x)
			if s, ok := subst[v.name]; ok {
				t = s
			}
			env.vars[v.name] = VInt{t}
		}
	}
	return binders
}

func (p *Program) lemmaFrame(ex *Exec, pkg string) *frame {
	sp := p.byName[pkg]
	var fn *ssa.Function
	if sp != nil {
		fn = sp.Func("init")
	}
	if fn == nil {
		for _, f := range p.funcs {
			fn = f
			break
		}
	}
	return &frame{fn: fn, ex: ex, key: "lemma", cellOf: map[*ssa.Alloc]*Cell{}}
}

// quantifiedLemma renders an axiom or lemma as a universally quantified closed term, evaluated
// in the package scope of the lemma (f supplies Exec/State only).
func (p *Program) quantifiedLemma(ex *Exec, st *State, f *frame, l *Lemma) T {
	lf := p.lemmaFrame(ex, l.Pkg)
	env := lf.baseEnv(st, st)
	prefix := "q_" + sanitize(l.Name) + "_"
	binders := p.bindLemmaVars(ex, st, env, l, prefix, false, nil)
	body := env.evalBool(l.E)
	if len(binders) == 0 {
		return body
	}
	return "(forall (" + strings.Join(binders, " ") + ") " + body + ")"
}

func newLemmaState() *State {
	return &State{cells: map[*Cell]Val{}, regs: map[ssa.Value]Val{}, mem: map[*Region][]T{}, heap: map[string][]T{},
		variants: map[*ssa.BasicBlock][]T{}, iters: map[*ssa.BasicBlock]int{}, ghost: map[string]Val{}, lits: map[*Region][]int16{}}
}

// proveLemmas discharges the lemmas whose name mentions the property id.
func (p *Program) proveLemmas(id string, opt dischargeOpts) []*obSummary {
	var obs []*Obligation
	for _, l := range p.spec.Lemmas {
		if l.Axiom || !strings.Contains(l.Name, id) {
			continue
		}
		obs = append(obs, p.lemmaObligations(l)...)
	}
	discharge(obs, opt)
	return summarize(obs)
}

func (p *Program) lemmaObligations(l *Lemma) (out []*Obligation) {
	defer func() {
		if r := recover(); r != nil {
			o := &Obligation{Fn: l.Pkg + ".lemma", Kind: l.Name, Name: l.Pkg + ".lemma#" + l.Name, Goal: "false", Decls: newDecls(),
				Desc:   fmt.Sprintf("lemma could not be evaluated: %v", r),
				Result: &SolverResult{Status: "unknown", Raw: fmt.Sprint(r), All: map[string]string{}}}
			out = []*Obligation{o}
		}
	}()
	mk := func(kind string, subst map[string]T, hyp func(env *specEnv) T) *Obligation {
		ex := p.newExec(ExecMode{Functional: true})
		ex.noInits = true
		st := newLemmaState()
		lf := p.lemmaFrame(ex, l.Pkg)
		// used axioms / lemmas, universally quantified
		for _, u := range l.Uses {
			ul := p.lemmaByName(u)
			if ul == nil {
				panic("lemma " + l.Name + " uses unknown " + u)
			}
			st.assume(p.quantifiedLemma(ex, st, lf, ul))
		}
		env := lf.baseEnv(st, st)
		p.bindLemmaVars(ex, st, env, l, "c_", true, subst)
		if hyp != nil {
			st.assume(hyp(env))
		}
		goal := env.evalBool(l.E)
		name := l.Pkg + ".lemma#" + l.Name
		if kind != "" {
			name += "." + kind
		}
		return &Obligation{Fn: l.Pkg + ".lemma", Kind: l.Name + "." + kind, Name: name, Goal: goal, Decls: ex.decls,
			Facts: st.facts, Desc: "lemma " + l.Name + " " + kind + ": " + truncate(l.Src, 160)}
	}
	if l.Ind == "" {
		return []*Obligation{mk("", nil, nil)}
	}
	base := mk("base", map[string]T{l.Ind: "0"}, nil)
	// step: assume the statement for n (n >= 0), prove it for n+1
	step := mk("step", map[string]T{l.Ind: "(+ c_" + l.Ind + " 1)"}, func(env *specEnv) T {
		// induction hypothesis: the statement at n, for ALL values of the other parameters (the usual
		// strengthening; needed when the step uses the statement on a different view, e.g. b[1:])
		ex, st := env.ex, env.st
		env2 := env.f.baseEnv(st, st)
		binders := p.bindLemmaVars(ex, st, env2, l, "ih_", false, map[string]T{l.Ind: "c_" + l.Ind})
		var keep []string
		for _, b := range binders {
			if b != "(ih_"+l.Ind+" Int)" {
				keep = append(keep, b)
			}
		}
		h := env2.evalBool(l.E)
		if len(keep) > 0 {
			h = "(forall (" + strings.Join(keep, " ") + ") " + h + ")"
		}
		return tAnd(tLe("0", "c_"+l.Ind), h)
	})
	return []*Obligation{base, step}
}

func sortedLemmaNames(p *Program) []string {
	var out []string
	for _, l := range p.spec.Lemmas {
		out = append(out, l.Name)
	}
	sort.Strings(out)
	return out
}
