package main

import (
	"flag"
	"fmt"
	"os"
	"sort"
	"strings"
	"time"
)

func usage() {
	fmt.Fprintln(os.Stderr, `govc — contract-based deductive verification of /repo (go/ssa → SMT)
  govc list                       function keys and loops
  govc fn <key> [-mode safety|full] [-v]
  govc sweep [pkg]                zero-annotation safety sweep
  govc check <Cxx> [-tier quick|thorough]
  govc replay <file>`)
	os.Exit(2)
}

var repoRoot = "/repo"

func main() {
	if len(os.Args) < 2 {
		usage()
	}
	if r := os.Getenv("GOVC_REPO"); r != "" {
		repoRoot = r
	}
	switch os.Args[1] {
	case "list":
		cmdList()
	case "fn":
		cmdFn(os.Args[2:])
	case "sweep":
		cmdSweep(os.Args[2:])
	case "check":
		os.Exit(cmdCheck(os.Args[2:]))
	case "replay":
		os.Exit(cmdReplay(os.Args[2:]))
	case "rel":
		p := mustLoad()
		t0 := time.Now()
		obs, notes, err := p.relObligations()
		fmt.Println("gen", time.Since(t0), len(obs), err, notes)
		t0 = time.Now()
		discharge(obs, dischargeOpts{timeoutMs: 10000, workers: 16})
		fmt.Println("discharge", time.Since(t0))
		for _, o := range obs {
			if o.Result.Status != "unsat" {
				fmt.Println(o.Name, o.Result.Status, o.Result.Elapsed, o.Result.All)
			}
		}
	case "selftest":
		os.Exit(cmdSelftest(os.Args[2:]))
	default:
		usage()
	}
}

func mustLoad() *Program {
	start := time.Now()
	p, err := loadProgram(repoRoot)
	if err != nil {
		fmt.Fprintln(os.Stderr, "govc: load:", err)
		os.Exit(2)
	}
	if os.Getenv("GOVC_QUIET") == "" {
		fmt.Fprintf(os.Stderr, "govc: loaded %d functions, %d contracts in %.1fs\n", len(p.funcs), len(p.contracts), time.Since(start).Seconds())
	}
	return p
}

func cmdList() {
	p := mustLoad()
	for _, k := range p.sortedKeys() {
		fn := p.funcs[k]
		loops := p.loopsOf(fn)
		var ls []string
		for _, li := range loops {
			kind := "for"
			if li.isRange {
				kind = "range"
			}
			ls = append(ls, fmt.Sprintf("%d:%s@%d", li.ordinal, kind, p.fset.Position(li.pos).Line))
		}
		sort.Strings(ls)
		c := ""
		if p.contracts[k] != nil {
			c = " [contract]"
		}
		fmt.Printf("%s%s loops=%v\n", k, c, ls)
	}
}

func cmdFn(args []string) {
	fs := flag.NewFlagSet("fn", flag.ExitOnError)
	mode := fs.String("mode", "full", "safety|full")
	verbose := fs.Bool("v", false, "verbose")
	timeout := fs.Int("t", 10000, "solver timeout ms")
	dump := fs.String("dump", "", "directory to write the SMT scripts of undischarged obligations to")
	if len(args) < 1 {
		usage()
	}
	key := args[0]
	fs.Parse(args[1:])
	p := mustLoad()
	fn := p.funcs[key]
	if fn == nil {
		fmt.Fprintln(os.Stderr, "unknown function", key)
		os.Exit(2)
	}
	m := ExecMode{Safety: true, Functional: *mode == "full", Overflow: true}
	rep := p.genObligations(fn, m, nil)
	discharge(rep.Obs, dischargeOpts{timeoutMs: *timeout, workers: 16})
	dischargeCovers(rep.Covers, dischargeOpts{timeoutMs: 3000, workers: 16})
	printReport(rep, *verbose)
	if *dump != "" {
		os.MkdirAll(*dump, 0o755)
		for _, o := range rep.Obs {
			if o.Result != nil && o.Result.Status != "unsat" {
				os.WriteFile(fmt.Sprintf("%s/%s_p%d.smt2", *dump, sanitize(o.Name), o.PathID), []byte(obligationScript(o, true, false)), 0o644)
			}
		}
	}
}

func printReport(rep *FnReport, verbose bool) {
	fmt.Printf("== %s: %d paths, %d obligation instances, gen %.2fs\n", rep.Key, rep.Paths, len(rep.Obs), rep.GenTime.Seconds())
	if rep.Panic != "" {
		fmt.Println("  ENGINE PANIC:", rep.Panic)
	}
	if rep.Aborted != "" {
		fmt.Println("  ABORTED:", rep.Aborted)
	}
	for _, s := range summarize(rep.Obs) {
		if s.Status == "discharged" && !verbose {
			continue
		}
		fmt.Printf("  %-11s %s (%d inst, %dms) %s  -- %s\n", s.Status, s.Name, s.Count, s.MaxMs, s.Pos, s.Desc)
		if s.Status != "discharged" {
			for i, o := range s.Failing {
				if i >= 2 {
					break
				}
				fmt.Printf("      path %d: %s %v\n", o.PathID, o.Result.Status, o.Result.All)
				if o.Result.Status == "sat" && verbose {
					fmt.Println(indent(modelSummary(o), "        "))
				}
				if o.Result.Status != "sat" && verbose {
					fmt.Println(indent(truncate(o.Result.Raw, 400), "        "))
				}
			}
		}
	}
	for _, name := range vacuousCovers(rep.Covers) {
		fmt.Printf("  VACUOUS     %s is unreachable under the contract\n", name)
		if verbose && os.Getenv("GOVC_SHOWVAC") != "" {
			for _, c := range rep.Covers {
				if c.Name == name {
					fmt.Println(indent(strings.Join(c.Facts, "\n"), "      | "))
					break
				}
			}
		}
	}
	if verbose {
		for _, n := range rep.Notes {
			fmt.Println("  note:", n)
		}
		for _, n := range rep.Assumed {
			fmt.Println("  assumed:", n)
		}
		if len(rep.Inlined) > 0 {
			fmt.Println("  inlined:", strings.Join(rep.Inlined, ", "))
		}
	}
}

func indent(s, pre string) string {
	return pre + strings.ReplaceAll(strings.TrimRight(s, "\n"), "\n", "\n"+pre)
}

func modelSummary(o *Obligation) string {
	if o.Result == nil || o.Entry == nil {
		return ""
	}
	in := extractInputs(o)
	var b strings.Builder
	for _, p := range in {
		fmt.Fprintf(&b, "%s = %s\n", p.Name, p.Show)
	}
	return b.String()
}

func cmdSweep(args []string) {
	fs := flag.NewFlagSet("sweep", flag.ExitOnError)
	verbose := fs.Bool("v", false, "verbose")
	timeout := fs.Int("t", 10000, "solver timeout ms")
	full := fs.Bool("full", false, "also functional obligations")
	fs.Parse(args)
	pkg := ""
	if fs.NArg() > 0 {
		pkg = fs.Arg(0)
	}
	p := mustLoad()
	total, bad := 0, 0
	start := time.Now()
	for _, k := range p.sortedKeys() {
		if pkg != "" && !strings.HasPrefix(k, pkg+".") {
			continue
		}
		fn := p.funcs[k]
		rep := p.genObligations(fn, ExecMode{Safety: true, Overflow: true, Functional: *full}, nil)
		discharge(rep.Obs, dischargeOpts{timeoutMs: *timeout, workers: 16})
		nbad := 0
		for _, s := range summarize(rep.Obs) {
			total++
			if s.Status != "discharged" {
				nbad++
				bad++
			}
		}
		if nbad > 0 || rep.Panic != "" || rep.Aborted != "" || *verbose {
			printReport(rep, *verbose)
		}
	}
	fmt.Printf("sweep: %d obligations, %d not discharged, %.1fs\n", total, bad, time.Since(start).Seconds())
}

// vacuousCovers: cover points for which every path instance is refuted.
func vacuousCovers(covers []*Obligation) []string {
	reach := map[string]bool{}
	var order []string
	for _, c := range covers {
		if _, ok := reach[c.Name]; !ok {
			reach[c.Name] = false
			order = append(order, c.Name)
		}
		if c.Result != nil && c.Result.Status != "unsat" {
			reach[c.Name] = true
		}
	}
	var out []string
	for _, n := range order {
		if !reach[n] {
			out = append(out, n)
		}
	}
	return out
}
