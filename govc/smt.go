package main

// SMT term construction (S-expressions as strings, with light constant
// folding so that package initialisers execute concretely) and the solver
// race (z3 4.8.12, z3-new 5.1.0, cvc5 1.0.x).

import (
	"bytes"
	"context"
	"fmt"
	"math/big"
	"os"
	"os/exec"
	"sort"
	"strings"
	"sync"
	"time"
)

type T = string

const (
	SInt   = "Int"
	SBool  = "Bool"
	SBytes = "(Array Int Int)"
)

func arrOf(s string) string { return "(Array Int " + s + ")" }

var two48 = "281474976710656"

func isNum(t T) (*big.Int, bool) {
	if len(t) == 0 {
		return nil, false
	}
	s := t
	neg := false
	if strings.HasPrefix(s, "(- ") && strings.HasSuffix(s, ")") && !strings.ContainsAny(s[3:len(s)-1], " ()") {
		s = s[3 : len(s)-1]
		neg = true
	}
	if s == "" || s[0] < '0' || s[0] > '9' {
		return nil, false
	}
	for _, c := range s {
		if c < '0' || c > '9' {
			return nil, false
		}
	}
	v, ok := new(big.Int).SetString(s, 10)
	if !ok {
		return nil, false
	}
	if neg {
		v.Neg(v)
	}
	return v, true
}

func numBig(v *big.Int) T {
	if v.Sign() < 0 {
		return "(- " + new(big.Int).Neg(v).String() + ")"
	}
	return v.String()
}
func num(v int64) T { return numBig(big.NewInt(v)) }

func pow2(k uint) *big.Int { return new(big.Int).Lsh(big.NewInt(1), k) }

func app(op string, args ...T) T {
	if len(args) == 0 {
		return op
	}
	return "(" + op + " " + strings.Join(args, " ") + ")"
}

func tAdd(a, b T) T {
	x, ok1 := isNum(a)
	y, ok2 := isNum(b)
	if ok1 && ok2 {
		return numBig(new(big.Int).Add(x, y))
	}
	if ok1 && x.Sign() == 0 {
		return b
	}
	if ok2 && y.Sign() == 0 {
		return a
	}
	return app("+", a, b)
}
func tSub(a, b T) T {
	x, ok1 := isNum(a)
	y, ok2 := isNum(b)
	if ok1 && ok2 {
		return numBig(new(big.Int).Sub(x, y))
	}
	if ok2 && y.Sign() == 0 {
		return a
	}
	return app("-", a, b)
}
func tMul(a, b T) T {
	x, ok1 := isNum(a)
	y, ok2 := isNum(b)
	if ok1 && ok2 {
		return numBig(new(big.Int).Mul(x, y))
	}
	if ok1 && x.Cmp(big.NewInt(1)) == 0 {
		return b
	}
	if ok2 && y.Cmp(big.NewInt(1)) == 0 {
		return a
	}
	return app("*", a, b)
}
func tNeg(a T) T {
	if x, ok := isNum(a); ok {
		return numBig(new(big.Int).Neg(x))
	}
	return app("-", a)
}

// floor division / modulus by a positive constant (SMT-LIB div/mod semantics).
func tDivC(a T, c *big.Int) T {
	if x, ok := isNum(a); ok {
		q, _ := new(big.Int).DivMod(x, c, new(big.Int))
		return numBig(q)
	}
	if c.Cmp(big.NewInt(1)) == 0 {
		return a
	}
	return app("div", a, numBig(c))
}
func tModC(a T, c *big.Int) T {
	if x, ok := isNum(a); ok {
		_, m := new(big.Int).DivMod(x, c, new(big.Int))
		return numBig(m)
	}
	return app("mod", a, numBig(c))
}

func cmpFold(op string, a, b T) (T, bool) {
	x, ok1 := isNum(a)
	y, ok2 := isNum(b)
	if !ok1 || !ok2 {
		return "", false
	}
	c := x.Cmp(y)
	var r bool
	switch op {
	case "<":
		r = c < 0
	case "<=":
		r = c <= 0
	case ">":
		r = c > 0
	case ">=":
		r = c >= 0
	case "=":
		r = c == 0
	}
	if r {
		return "true", true
	}
	return "false", true
}
func tLt(a, b T) T {
	if r, ok := cmpFold("<", a, b); ok {
		return r
	}
	return app("<", a, b)
}
func tLe(a, b T) T {
	if r, ok := cmpFold("<=", a, b); ok {
		return r
	}
	return app("<=", a, b)
}
func tGt(a, b T) T { return tLt(b, a) }
func tGe(a, b T) T { return tLe(b, a) }
func tEq(a, b T) T {
	if a == b {
		return "true"
	}
	if r, ok := cmpFold("=", a, b); ok {
		return r
	}
	if (a == "true" && b == "false") || (a == "false" && b == "true") {
		return "false"
	}
	if b == "true" {
		return a
	}
	if a == "true" {
		return b
	}
	if b == "false" {
		return tNot(a)
	}
	if a == "false" {
		return tNot(b)
	}
	return app("=", a, b)
}
func tNe(a, b T) T { return tNot(tEq(a, b)) }
func tNot(a T) T {
	switch a {
	case "true":
		return "false"
	case "false":
		return "true"
	}
	if strings.HasPrefix(a, "(not ") {
		return a[5 : len(a)-1]
	}
	return app("not", a)
}
func tAnd(xs ...T) T {
	var out []T
	for _, x := range xs {
		if x == "true" {
			continue
		}
		if x == "false" {
			return "false"
		}
		out = append(out, x)
	}
	switch len(out) {
	case 0:
		return "true"
	case 1:
		return out[0]
	}
	return app("and", out...)
}
func tOr(xs ...T) T {
	var out []T
	for _, x := range xs {
		if x == "false" {
			continue
		}
		if x == "true" {
			return "true"
		}
		out = append(out, x)
	}
	switch len(out) {
	case 0:
		return "false"
	case 1:
		return out[0]
	}
	return app("or", out...)
}
func tImp(a, b T) T {
	if a == "true" {
		return b
	}
	if a == "false" || b == "true" {
		return "true"
	}
	if b == "false" {
		return tNot(a)
	}
	return app("=>", a, b)
}
func tIte(c, a, b T) T {
	if c == "true" {
		return a
	}
	if c == "false" {
		return b
	}
	if a == b {
		return a
	}
	return app("ite", c, a, b)
}
func tSel(m, i T) T {
	if strings.HasPrefix(m, "((as const ") {
		// constant array: the element is the default value
		depth := 0
		for k := len("((as const "); k < len(m); k++ {
			if m[k] == '(' {
				depth++
			}
			if m[k] == ')' {
				depth--
				if depth == 0 {
					return strings.TrimSpace(m[k+2 : len(m)-1])
				}
			}
		}
	}
	// fold select over store chains with numeric indices
	if ix, ok := isNum(i); ok {
		cur := m
		for strings.HasPrefix(cur, "(store ") {
			parts := splitTop(cur[1 : len(cur)-1])
			if len(parts) != 4 {
				break
			}
			jx, ok2 := isNum(parts[2])
			if !ok2 {
				break
			}
			if jx.Cmp(ix) == 0 {
				return parts[3]
			}
			cur = parts[1]
		}
		if cur != m {
			return tSel(cur, i)
		}
	}
	return app("select", m, i)
}
func tStore(m, i, v T) T { return app("store", m, i, v) }

// tIdx: address of element i of a slice with offset off. Arithmetic inside quantifier
// triggers defeats E-matching (z3 normalises sums), so the address is an application of the
// function idx, axiomatised as off + i with an explicit pattern (idxAxiom is added to every
// script that mentions idx).
func tIdx(off, i T) T {
	if off == "0" {
		return i
	}
	_, ok1 := isNum(off)
	_, ok2 := isNum(i)
	if ok1 && ok2 {
		return tAdd(off, i)
	}
	// canonical form: idx(base, delta + i) where base is the leftmost atom of the offset sum, so
	// that every address into the same memory shares its first argument (quantifier triggers
	// over idx(base, _) then match whatever view the access went through)
	if canonicalIdx {
		base, delta := splitBase(off)
		if delta != "0" {
			return app("idx", base, tAdd(delta, i))
		}
	}
	return app("idx", off, i)
}

// canonicalIdx: experimental canonical addressing (off by default: it makes axioms quantified
// over a bound offset instantiate to non-canonical terms)
var canonicalIdx = os.Getenv("GOVC_CANONICAL_IDX") != ""

// splitBase decomposes (+ (+ a b) c) into a and (+ b c); atoms and non-sums have delta 0.
func splitBase(off T) (T, T) {
	if !strings.HasPrefix(off, "(+ ") {
		return off, "0"
	}
	parts := splitTop(off[1 : len(off)-1])
	if len(parts) < 3 {
		return off, "0"
	}
	base, d0 := splitBase(parts[1])
	delta := d0
	for _, p := range parts[2:] {
		delta = tAdd(delta, p)
	}
	if _, isn := isNum(base); isn {
		return off, "0"
	}
	return base, delta
}

const idxDecl = "(declare-fun idx (Int Int) Int)\n(assert (forall ((idx_o Int) (idx_i Int)) (! (= (idx idx_o idx_i) (+ idx_o idx_i)) :pattern ((idx idx_o idx_i)))))\n"

// splitTop splits an s-expression body on top-level spaces.
func splitTop(s string) []string {
	var out []string
	depth := 0
	start := 0
	inBar := false
	for i := 0; i < len(s); i++ {
		c := s[i]
		if c == '|' {
			inBar = !inBar
		}
		if inBar {
			continue
		}
		switch c {
		case '(':
			depth++
		case ')':
			depth--
		case ' ':
			if depth == 0 {
				if i > start {
					out = append(out, s[start:i])
				}
				start = i + 1
			}
		}
	}
	if start < len(s) {
		out = append(out, s[start:])
	}
	return out
}

func tForall(v string, body T) T {
	if body == "true" {
		return "true"
	}
	return "(forall ((" + v + " Int)) " + body + ")"
}
func tExists(v string, body T) T {
	if body == "false" {
		return "false"
	}
	return "(exists ((" + v + " Int)) " + body + ")"
}

// ---------------------------------------------------------------------------
// Declarations

type Decls struct {
	mu    sync.Mutex
	order []string
	sorts map[string]string // const name -> sort, or fun name -> "(args) ret"
	funs  map[string]bool
	n     int
	defs  []string // define-fun / axioms text emitted after declarations
}

func newDecls() *Decls { return &Decls{sorts: map[string]string{}, funs: map[string]bool{}} }

func sanitize(s string) string {
	var b strings.Builder
	for _, c := range s {
		switch {
		case c >= 'a' && c <= 'z', c >= 'A' && c <= 'Z', c >= '0' && c <= '9', c == '_':
			b.WriteRune(c)
		default:
			b.WriteByte('_')
		}
	}
	return b.String()
}

func (d *Decls) fresh(hint, sort string) T {
	d.mu.Lock()
	defer d.mu.Unlock()
	d.n++
	name := fmt.Sprintf("%s!%d", sanitize(hint), d.n)
	d.sorts[name] = sort
	d.order = append(d.order, name)
	return name
}

// named declares (idempotently) a constant with a stable name.
func (d *Decls) named(name, sort string) T {
	d.mu.Lock()
	defer d.mu.Unlock()
	name = sanitize(name)
	if _, ok := d.sorts[name]; !ok {
		d.sorts[name] = sort
		d.order = append(d.order, name)
	}
	return name
}

func (d *Decls) fun(name string, args []string, ret string) string {
	d.mu.Lock()
	defer d.mu.Unlock()
	name = sanitize(name)
	if _, ok := d.sorts[name]; !ok {
		d.sorts[name] = "(" + strings.Join(args, " ") + ") " + ret
		d.funs[name] = true
		d.order = append(d.order, name)
	}
	return name
}

func (d *Decls) addDef(s string) {
	d.mu.Lock()
	defer d.mu.Unlock()
	for _, x := range d.defs {
		if x == s {
			return
		}
	}
	d.defs = append(d.defs, s)
}

func (d *Decls) script(used func(string) bool) string {
	d.mu.Lock()
	defer d.mu.Unlock()
	var b strings.Builder
	for _, n := range d.order {
		if used != nil && !used(n) {
			continue
		}
		if d.funs[n] {
			fmt.Fprintf(&b, "(declare-fun %s %s)\n", n, d.sorts[n])
		} else {
			fmt.Fprintf(&b, "(declare-const %s %s)\n", n, d.sorts[n])
		}
	}
	for _, s := range d.defs {
		b.WriteString(s)
		b.WriteString("\n")
	}
	return b.String()
}

// ---------------------------------------------------------------------------
// Solver race

type SolverResult struct {
	Status  string // unsat | sat | unknown | timeout | error
	Solver  string
	Model   string
	Elapsed time.Duration
	All     map[string]string // solver -> status
	Raw     string
}

type solverSpec struct {
	name string
	argv func(timeoutMs int) []string
}

var solvers = []solverSpec{
	{"z3-new", func(ms int) []string { return []string{"z3-new", "-in", "-smt2", fmt.Sprintf("-t:%d", ms)} }},
	{"z3", func(ms int) []string { return []string{"z3", "-in", "-smt2", fmt.Sprintf("-t:%d", ms)} }},
	{"cvc5", func(ms int) []string {
		return []string{"cvc5", "--lang=smt2", "--produce-models", fmt.Sprintf("--tlimit=%d", ms)}
	}},
}

var solverSem = make(chan struct{}, 16)

func runOne(sp solverSpec, script string, timeoutMs int, ctx context.Context) (string, string) {
	st, raw, _ := runOneT(sp, script, timeoutMs, ctx)
	return st, raw
}

// runOneT also returns the time the solver process itself ran (queueing for a slot excluded).
func runOneT(sp solverSpec, script string, timeoutMs int, ctx context.Context) (st string, raw string, dur time.Duration) {
	solverSem <- struct{}{}
	defer func() { <-solverSem }()
	t0 := time.Now()
	defer func() { dur = time.Since(t0) }()
	c, cancel := context.WithTimeout(ctx, time.Duration(timeoutMs+2000)*time.Millisecond)
	defer cancel()
	argv := sp.argv(timeoutMs)
	cmd := exec.CommandContext(c, argv[0], argv[1:]...)
	cmd.Stdin = strings.NewReader(script)
	var out bytes.Buffer
	cmd.Stdout = &out
	cmd.Stderr = &out
	_ = cmd.Run()
	s := out.String()
	first := strings.TrimSpace(strings.SplitN(s, "\n", 2)[0])
	switch first {
	case "unsat", "sat", "unknown":
		return first, s, 0
	case "timeout":
		return "timeout", s, 0
	}
	if c.Err() != nil {
		return "timeout", s, 0
	}
	if strings.Contains(s, "timeout") || strings.Contains(s, "interrupted") {
		return "timeout", s, 0
	}
	return "error", s, 0
}

// solve races the solvers. quantified goals put z3 first; cvc5 is skipped for
// scripts it cannot parse. A result counts only if it is unsat or sat.
func solve(script string, timeoutMs int, all bool) SolverResult {
	start := time.Now()
	var stage1 time.Duration
	if !all {
		// stage 1: the cheapest solver alone with a short cap; most obligations end here
		cap1 := 1500
		if timeoutMs < cap1 {
			cap1 = timeoutMs
		}
		st, raw, d := runOneT(solvers[1], script, cap1, context.Background())
		if st == "unsat" || st == "sat" {
			r := SolverResult{Status: st, Solver: "z3", Raw: raw, All: map[string]string{"z3": st}}
			if st == "sat" {
				r.Model = raw
			}
			r.Elapsed = d
			return r
		}
		stage1 = d
	}
	r := solveRace(script, timeoutMs, all)
	r.Elapsed = stage1 + r.Elapsed
	_ = start
	return r
}

func solveRace(script string, timeoutMs int, all bool) SolverResult {
	ctx, cancel := context.WithCancel(context.Background())
	defer cancel()
	type res struct {
		name, status, raw string
		dur               time.Duration
	}
	ch := make(chan res, len(solvers))
	n := 0
	for _, sp := range solvers {
		sp := sp
		sc := script
		if sp.name == "cvc5" {
			sc = "(set-option :produce-models true)\n(set-logic ALL)\n" + script
		}
		n++
		go func() {
			st, raw, d := runOneT(sp, sc, timeoutMs, ctx)
			ch <- res{sp.name, st, raw, d}
		}()
	}
	out := SolverResult{Status: "unknown", All: map[string]string{}}
	graceStarted := false
	for i := 0; i < n; i++ {
		r := <-ch
		out.All[r.name] = r.status
		if r.dur > out.Elapsed {
			out.Elapsed = r.dur
		}
		if r.status == "unsat" || r.status == "sat" {
			if out.Status == "unsat" || out.Status == "sat" {
				if out.Status != r.status {
					out.Status = "disagree"
					out.Raw += "\n--- " + r.name + "\n" + r.raw
				}
				continue
			}
			out.Status = r.status
			out.Solver = r.name
			out.Raw = r.raw
			if r.status == "sat" {
				out.Model = r.raw
			}
			if !all {
				cancel()
				break
			}
			// cross-check mode: the other solvers get a short grace period to agree or disagree
			if !graceStarted {
				graceStarted = true
				go func() {
					time.Sleep(3 * time.Second)
					cancel()
				}()
			}
		} else if out.Status == "unknown" {
			out.Raw += "--- " + r.name + ": " + r.status + "\n" + truncate(r.raw, 600) + "\n"
		}
	}
	if out.Status == "unknown" {
		allTO := true
		for _, s := range out.All {
			if s != "timeout" {
				allTO = false
			}
		}
		if allTO {
			out.Status = "timeout"
		}
	}
	return out
}

func truncate(s string, n int) string {
	if len(s) <= n {
		return s
	}
	return s[:n] + "…"
}

// parseModel extracts (define-fun name () Int value) entries and array models are left raw.
func parseModelInts(model string) map[string]string {
	out := map[string]string{}
	toks := tokenizeSexp(model)
	// naive scan for: ( define-fun NAME ( ) Int VALUE )
	for i := 0; i+6 < len(toks); i++ {
		if toks[i] == "define-fun" && toks[i+2] == "(" && toks[i+3] == ")" && (toks[i+4] == "Int" || toks[i+4] == "Bool") {
			name := toks[i+1]
			if toks[i+5] == "(" && toks[i+6] == "-" && i+8 < len(toks) {
				out[name] = "-" + toks[i+7]
			} else {
				out[name] = toks[i+5]
			}
		}
	}
	return out
}

func tokenizeSexp(s string) []string {
	var out []string
	i := 0
	for i < len(s) {
		c := s[i]
		switch {
		case c == '(' || c == ')':
			out = append(out, string(c))
			i++
		case c == ' ' || c == '\n' || c == '\t' || c == '\r':
			i++
		case c == '|':
			j := i + 1
			for j < len(s) && s[j] != '|' {
				j++
			}
			out = append(out, s[i:j+1])
			i = j + 1
		case c == ';':
			for i < len(s) && s[i] != '\n' {
				i++
			}
		default:
			j := i
			for j < len(s) && !strings.ContainsRune("() \n\t\r", rune(s[j])) {
				j++
			}
			out = append(out, s[i:j])
			i = j
		}
	}
	return out
}

// identsIn returns the set of identifier-like tokens in terms (for declaration pruning).
func identsIn(terms ...string) map[string]bool {
	m := map[string]bool{}
	for _, t := range terms {
		i := 0
		for i < len(t) {
			c := t[i]
			if c == '(' || c == ')' || c == ' ' || c == '\n' {
				i++
				continue
			}
			j := i
			for j < len(t) && t[j] != '(' && t[j] != ')' && t[j] != ' ' && t[j] != '\n' {
				j++
			}
			m[t[i:j]] = true
			i = j
		}
	}
	return m
}

func sortedKeys[V any](m map[string]V) []string {
	ks := make([]string, 0, len(m))
	for k := range m {
		ks = append(ks, k)
	}
	sort.Strings(ks)
	return ks
}

var debugDir = os.Getenv("GOVC_DEBUG_DIR")
