package main

import (
	"fmt"
	"go/types"
	"strings"

	"golang.org/x/tools/go/ssa"
)

// Symbolic values.

type Val interface{}

type Region struct {
	id     int
	name   string
	strict bool // derived from caller input / global / heap: reslicing beyond len is an obligation failure
	fresh  bool // allocated during the current execution
	input  bool // memory of a parameter: writes are a frame violation
}

type Cell struct {
	id   int
	name string
	typ  types.Type
	al   *ssa.Alloc
}

type VInt struct{ T T }
type VBool struct{ T T }
type VSlice struct {
	R             *Region
	Elem          types.Type
	Off, Len, Cap T
	Str           bool
	Lit           []byte // concrete contents when known (string/byte literals)
	HasLit        bool
}
type VRef struct { // pointer to a heap-modelled struct
	T  T
	St *types.Named
}
type VCellPtr struct {
	C    *Cell
	Path []int // field path inside a struct-valued cell
}
type VElemPtr struct {
	S    VSlice
	Idx  T
	Path []int // field path inside a struct-valued element
}
type VFieldPtr struct { // &ref.f for heap structs
	Ref   T
	St    *types.Named
	Field int
}
type VGlobalPtr struct{ G *ssa.Global }
type VStruct struct {
	Typ types.Type
	F   []Val
}
type VFunc struct {
	Fn   *ssa.Function
	Free []Val
	ID   T
}
type VTuple struct{ E []Val }
type VOpaque struct {
	T   T
	Typ types.Type
}
type VIface struct {
	Dyn types.Type // nil if unknown
	V   Val
	ID  T
}
type VNilPtr struct{}

// VMap: maps are path-concrete: a set of entries with literal string keys. Unknown maps
// (parameters, havoc) answer lookups with unconstrained values.
type VMap struct {
	ID      T
	Typ     types.Type
	Keys    []string
	Vals    []Val
	Unknown bool
}

func isByteElem(t types.Type) bool {
	b, ok := t.Underlying().(*types.Basic)
	return ok && (b.Kind() == types.Uint8)
}

// intRange returns (lo, hi, signed, bits) for integer basic kinds.
func intInfo(t types.Type) (bits uint, signed bool, ok bool) {
	b, isB := t.Underlying().(*types.Basic)
	if !isB {
		return 0, false, false
	}
	switch b.Kind() {
	case types.Int, types.Int64, types.UntypedInt, types.UntypedRune:
		return 64, true, true
	case types.Int32:
		return 32, true, true
	case types.Int16:
		return 16, true, true
	case types.Int8:
		return 8, true, true
	case types.Uint, types.Uint64, types.Uintptr:
		return 64, false, true
	case types.Uint32:
		return 32, false, true
	case types.Uint16:
		return 16, false, true
	case types.Uint8:
		return 8, false, true
	}
	return 0, false, false
}

func rangeFact(t types.Type, x T) T {
	bits, signed, ok := intInfo(t)
	if !ok {
		return "true"
	}
	if signed {
		lo := numBig(new(bigInt).Neg(pow2(bits - 1)))
		hi := numBig(new(bigInt).Sub(pow2(bits-1), bigOne))
		return tAnd(tLe(lo, x), tLe(x, hi))
	}
	hi := numBig(new(bigInt).Sub(pow2(bits), bigOne))
	return tAnd(tLe("0", x), tLe(x, hi))
}

// heapStructs: named struct types modelled in the heap (objects reached through pointers).
func heapStructName(t types.Type) (*types.Named, bool) {
	n, ok := t.(*types.Named)
	if !ok {
		return nil, false
	}
	if _, ok := n.Underlying().(*types.Struct); !ok {
		return nil, false
	}
	return n, true
}

func namedKey(n *types.Named) string {
	p := ""
	if n.Obj().Pkg() != nil {
		p = n.Obj().Pkg().Name() + "."
	}
	return p + n.Obj().Name()
}

// sortsOf flattens a Go type into SMT component sorts.
func sortsOf(t types.Type) []string {
	switch u := t.Underlying().(type) {
	case *types.Basic:
		if u.Info()&types.IsBoolean != 0 {
			return []string{SBool}
		}
		if u.Info()&types.IsString != 0 {
			return []string{SBytes, SInt, SInt, SInt}
		}
		return []string{SInt}
	case *types.Slice:
		var out []string
		for _, s := range sortsOf(u.Elem()) {
			out = append(out, arrOf(s))
		}
		return append(out, SInt, SInt, SInt)
	case *types.Array:
		var out []string
		for _, s := range sortsOf(u.Elem()) {
			out = append(out, arrOf(s))
		}
		return append(out, SInt, SInt, SInt)
	case *types.Struct:
		var out []string
		for i := 0; i < u.NumFields(); i++ {
			out = append(out, sortsOf(u.Field(i).Type())...)
		}
		return out
	case *types.Pointer, *types.Signature, *types.Map, *types.Interface, *types.Chan:
		return []string{SInt}
	}
	return []string{SInt}
}

func zeroOfSort(s string) T {
	switch s {
	case SInt:
		return "0"
	case SBool:
		return "false"
	}
	if strings.HasPrefix(s, "(Array Int ") {
		inner := s[len("(Array Int ") : len(s)-1]
		return "((as const " + s + ") " + zeroOfSort(inner) + ")"
	}
	panic("zeroOfSort " + s)
}

func elemOf(t types.Type) types.Type {
	switch u := t.Underlying().(type) {
	case *types.Slice:
		return u.Elem()
	case *types.Array:
		return u.Elem()
	case *types.Basic:
		if u.Info()&types.IsString != 0 {
			return types.Typ[types.Uint8]
		}
	case *types.Pointer:
		return elemOf(u.Elem())
	}
	panic(fmt.Sprintf("elemOf %v", t))
}

func isStringType(t types.Type) bool {
	b, ok := t.Underlying().(*types.Basic)
	return ok && b.Info()&types.IsString != 0
}

// VFork: result of an inlined call whose return paths are to be continued separately.
type VFork struct{ rets []retPath }
