package main

import (
	"context"
	"encoding/hex"
	"encoding/json"
	"fmt"
	"go/types"
	"strings"

	"golang.org/x/tools/go/ssa"
)

func contextBackground() context.Context { return context.Background() }

func encodingJSONUnmarshal(data []byte, v any) { json.Unmarshal(data, v) }

type dumpCtx struct {
	ex    *Exec
	refs  map[string]T // address -> ref numeral
	nextR int
}

// valFromDump rebuilds a concrete symbolic value (all numerals / store chains) from the
// JSON the replay harness printed.
func (dc *dumpCtx) valFromDump(st *State, d any, t types.Type) Val {
	ex := dc.ex
	switch u := t.Underlying().(type) {
	case *types.Basic:
		if u.Info()&types.IsBoolean != 0 {
			if b, _ := d.(bool); b {
				return VBool{"true"}
			}
			return VBool{"false"}
		}
		if u.Info()&types.IsString != 0 {
			m, _ := d.(map[string]any)
			hs, _ := m["string_hex"].(string)
			bs, _ := hex.DecodeString(hs)
			return ex.litSlice(st, bs, true)
		}
		s, _ := d.(string)
		return VInt{numFromString(s)}
	case *types.Slice, *types.Array:
		elem := elemOf(t)
		if isByteElem(elem) {
			m, _ := d.(map[string]any)
			hs, _ := m["bytes_hex"].(string)
			bs, _ := hex.DecodeString(hs)
			v := ex.litSlice(st, bs, false)
			if c, ok := m["cap"].(float64); ok {
				v.Cap = num(int64(c))
			}
			return v
		}
		list, _ := d.([]any)
		r := ex.newRegion("dump", true, false)
		var mem []T
		for _, s := range sortsOf(elem) {
			mem = append(mem, zeroOfSort(arrOf(s)))
		}
		for i, e := range list {
			ev := dc.valFromDump(st, e, elem)
			comps := ex.flatten(st, ev, elem)
			for ci := range mem {
				mem[ci] = tStore(mem[ci], num(int64(i)), comps[ci])
			}
		}
		st.mem[r] = mem
		n := num(int64(len(list)))
		return VSlice{R: r, Elem: elem, Off: "0", Len: n, Cap: n}
	case *types.Struct:
		m, _ := d.(map[string]any)
		vs := VStruct{Typ: t}
		for i := 0; i < u.NumFields(); i++ {
			vs.F = append(vs.F, dc.valFromDump(st, m[u.Field(i).Name()], u.Field(i).Type()))
		}
		return vs
	case *types.Pointer:
		if n, ok := heapStructName(u.Elem()); ok {
			if d == nil {
				return VRef{"0", n}
			}
			m, _ := d.(map[string]any)
			addr, _ := m["addr"].(string)
			ref, seen := dc.refs[addr]
			if !seen {
				dc.nextR++
				ref = num(int64(dc.nextR))
				dc.refs[addr] = ref
			}
			if pm, ok := m["pointee"].(map[string]any); ok {
				su := n.Underlying().(*types.Struct)
				for i := 0; i < su.NumFields(); i++ {
					fv := dc.valFromDump(st, pm[su.Field(i).Name()], su.Field(i).Type())
					ex.heapStore(st, n, i, ref, fv)
				}
			}
			return VRef{ref, n}
		}
		if d == nil {
			return VOpaque{"0", t}
		}
		m, _ := d.(map[string]any)
		c := ex.newCell("dumpcell", u.Elem())
		st.cells[c] = dc.valFromDump(st, m["pointee"], u.Elem())
		return VCellPtr{C: c}
	case *types.Signature:
		if s, _ := d.(string); s == "nil" {
			return VFunc{ID: "0"}
		}
		return VFunc{ID: "1"}
	case *types.Map:
		return VMap{ID: "1", Typ: t, Unknown: true}
	case *types.Interface:
		if d == nil {
			return VIface{ID: "0"}
		}
		return VIface{ID: "1"}
	}
	return VOpaque{"0", t}
}

// evalPostConcrete evaluates the failed ensures clause on the values observed on the real code.
func evalPostConcrete(p *Program, o *Obligation, fn *ssa.Function, pre, post, results []any, panicked string) (bool, string) {
	if panicked != "" {
		return true, "real code panicked instead of returning: " + panicked
	}
	con := p.contracts[p.keyOf(fn)]
	if con == nil {
		return false, "no contract"
	}
	label := strings.TrimPrefix(o.Kind, "post.")
	var clause *Clause
	for i := range con.Ensures {
		if con.Ensures[i].Label == label {
			clause = &con.Ensures[i]
		}
	}
	if clause == nil {
		return false, "clause not found: " + label
	}
	var verdict bool
	var why string
	func() {
		defer func() {
			if r := recover(); r != nil {
				why = fmt.Sprintf("clause could not be evaluated on observed values: %v", r)
			}
		}()
		ex := p.newExec(ExecMode{})
		newSt := func() *State {
			return &State{cells: map[*Cell]Val{}, regs: map[ssa.Value]Val{}, mem: map[*Region][]T{}, heap: map[string][]T{},
				variants: map[*ssa.BasicBlock][]T{}, iters: map[*ssa.BasicBlock]int{}, ghost: map[string]Val{}, lits: map[*Region][]int16{}}
		}
		oldSt := newSt()
		ex.runInits(oldSt, fn)
		curSt := oldSt.clone()
		// the "old" heap must not alias the "new" heap symbols: use distinct base arrays by evaluating stores on zero arrays
		dc := &dumpCtx{ex: ex, refs: map[string]T{}}
		f := &frame{fn: fn, ex: ex, key: p.keyOf(fn), con: con, cellOf: map[*ssa.Alloc]*Cell{}}
		for i, prm := range fn.Params {
			if i < len(pre) {
				f.params = append(f.params, dc.valFromDump(oldSt, pre[i], prm.Type()))
			}
		}
		// post state: same objects (same addresses), new field values
		for i, prm := range fn.Params {
			if i < len(post) {
				dc.valFromDump(curSt, post[i], prm.Type())
			}
		}
		// memory of parameter regions is visible in both states
		for r, m := range oldSt.mem {
			if _, ok := curSt.mem[r]; !ok {
				curSt.mem[r] = m
			}
		}
		var res []Val
		sig := fn.Signature.Results()
		for i := 0; i < sig.Len() && i < len(results); i++ {
			res = append(res, dc.valFromDump(curSt, results[i], sig.At(i).Type()))
		}
		f.entry = oldSt
		env := f.specEnv(curSt, oldSt, res)
		term := env.evalBool(clause.E)
		switch term {
		case "true":
			verdict, why = false, "clause holds on the observed execution (counterexample relied on an abstraction)"
			return
		case "false":
			verdict, why = true, "clause `"+clause.Src+"` is false on the values observed on the real code"
			return
		}
		ob := &Obligation{Goal: term, Decls: ex.decls}
		r := solve(obligationScript(ob, true, false), 10000, false)
		switch r.Status {
		case "sat":
			verdict, why = true, "clause `"+clause.Src+"` is false on the values observed on the real code"
		case "unsat":
			verdict, why = false, "clause holds on the observed execution (counterexample relied on an abstraction)"
		default:
			verdict, why = false, "ground clause undecided by solver: "+r.Status
		}
	}()
	return verdict, why
}

func cmdSelftest(args []string) int { return 2 }

type inputShow struct{ Name, Show string }

func extractInputs(o *Obligation) []inputShow { return nil }
