package main

// Evaluation of contract expressions to symbolic values.

import (
	"fmt"
	"go/constant"
	"go/types"
	"math/big"
	"strings"
	"unicode/utf8"

	"golang.org/x/tools/go/ssa"
)

type specEnv struct {
	ex         *Exec
	f          *frame // function whose scope names resolve in
	st         *State
	old        *State
	vars       map[string]Val
	oldVars    map[string]Val
	cellsFirst bool
	renaming   bool
	bound      map[string]T
	inOld      bool
	qn         *int
	pkg        *ssa.Package
	skipBlocks map[*ssa.BasicBlock]bool
	callPre    *State // at a call site: the caller's state before the call (fresh = allocated during the call)
}

func (f *frame) baseEnv(st, old *State) *specEnv {
	n := 0
	return &specEnv{ex: f.ex, f: f, st: st, old: old, vars: map[string]Val{}, bound: map[string]T{}, qn: &n, pkg: f.fn.Pkg}
}

// specEnv for pre/postconditions of f itself: parameter names denote entry values.
func (f *frame) specEnv(st, old *State, results []Val) *specEnv {
	env := f.baseEnv(st, old)
	for i, p := range f.fn.Params {
		env.vars[p.Name()] = f.params[i]
	}
	f.bindResults(env, f.fn, results)
	return env
}

func (f *frame) bindResults(env *specEnv, fn *ssa.Function, results []Val) {
	if results == nil {
		return
	}
	res := fn.Signature.Results()
	for i := 0; i < res.Len(); i++ {
		if n := res.At(i).Name(); n != "" && n != "_" {
			env.vars[n] = results[i]
		}
		env.vars[fmt.Sprintf("result%d", i)] = results[i]
	}
	if len(results) > 0 {
		env.vars["result"] = results[0]
	}
}

// specEnvInv: loop invariants see the current values of source variables.
func (f *frame) specEnvInv(st *State) *specEnv {
	env := f.baseEnv(st, f.entry)
	env.cellsFirst = true
	env.oldVars = map[string]Val{}
	for i, p := range f.fn.Params {
		env.oldVars[p.Name()] = f.params[i]
	}
	return env
}

// specEnvCall: contract of callee evaluated at a call site.
func (f *frame) specEnvCall(callee *ssa.Function, st, pre *State, args, free, results []Val) *specEnv {
	nf := &frame{fn: callee, ex: f.ex, key: f.ex.prog.keyOf(callee), params: args, free: free, cellOf: map[*ssa.Alloc]*Cell{}}
	env := nf.baseEnv(st, pre)
	for i, p := range callee.Params {
		env.vars[p.Name()] = args[i]
	}
	f.bindResults(env, callee, results)
	return env
}

func (e *specEnv) fail(format string, a ...any) {
	panic(fmt.Sprintf("spec eval (%s): %s", e.f.key, fmt.Sprintf(format, a...)))
}

func (e *specEnv) evalBool(x Expr) T {
	v := e.eval(x)
	b, ok := v.(VBool)
	if !ok {
		e.fail("expected bool, got %T for %s", v, exprString(x))
	}
	return b.T
}
func (e *specEnv) evalInt(x Expr) T {
	v := e.eval(x)
	switch i := v.(type) {
	case VInt:
		return i.T
	case VRef:
		return i.T
	}
	e.fail("expected int, got %T for %s", v, exprString(x))
	return ""
}

func (e *specEnv) cur() *State {
	if e.inOld {
		return e.old
	}
	return e.st
}

func (e *specEnv) lookup(name string) Val {
	if t, ok := e.bound[name]; ok {
		return VInt{t}
	}
	if e.inOld && e.oldVars != nil {
		if v, ok := e.oldVars[name]; ok {
			return v
		}
	}
	if v, ok := e.vars[name]; ok {
		return v
	}
	if name == "nil" {
		return VNilPtr{}
	}
	st := e.cur()
	if e.cellsFirst && !e.inOld {
		var best *Cell
		for al, c := range e.f.cellOf {
			if e.skipBlocks != nil && e.skipBlocks[al.Block()] {
				continue // declared inside the loop body: not in scope at the loop head
			}
			if al.Comment == name {
				if _, live := st.cells[c]; live && (best == nil || c.id > best.id) {
					best = c
				}
			}
		}
		if best != nil {
			return st.cells[best]
		}
		// named results and parameters that were never spilled
		for i, p := range e.f.fn.Params {
			if p.Name() == name {
				return e.f.params[i]
			}
		}
	}
	// a function executed in place of its call sees, for specification purposes, the locals of the
	// functions it was called from (used when loop annotations of the caller are offered to a loop
	// that a change moved into a helper)
	if e.cellsFirst && !e.inOld && e.f.inlined {
		for fr := e.f.caller; fr != nil; fr = fr.caller {
			var best *Cell
			for al, c := range fr.cellOf {
				if al.Comment == name {
					if _, live := st.cells[c]; live && (best == nil || c.id > best.id) {
						best = c
					}
				}
			}
			if best != nil {
				return st.cells[best]
			}
			for i, p := range fr.fn.Params {
				if p.Name() == name && i < len(fr.params) {
					return fr.params[i]
				}
			}
			if !fr.inlined {
				break
			}
		}
	}
	for i, fv := range e.f.fn.FreeVars {
		if fv.Name() == name {
			if cp, ok := e.f.free[i].(VCellPtr); ok {
				return st.cells[cp.C]
			}
		}
	}
	if g, ok := st.ghost[name]; ok {
		return g
	}
	// package scope
	if e.pkg != nil {
		if m, ok := e.pkg.Members[name]; ok {
			switch x := m.(type) {
			case *ssa.Global:
				return e.ex.prog.globalLoad(e.ex, st, x)
			case *ssa.NamedConst:
				return constToVal(e.ex, st, x.Value)
			case *ssa.Function:
				return e.ex.prog.funcVal(x, nil)
			}
		}
	}
	if e.f != nil && !e.renaming {
		if alias, ok := e.ex.prog.renames[e.f.key][name]; ok && alias != name {
			e.renaming = true
			defer func() { e.renaming = false }()
			return e.lookup(alias)
		}
	}
	e.fail("unknown name %q", name)
	return nil
}

func constToVal(ex *Exec, st *State, c *ssa.Const) Val {
	if c.Value.Kind() == constant.Int {
		bi, _ := new(big.Int).SetString(c.Value.ExactString(), 10)
		return VInt{numBig(bi)}
	}
	if c.Value.Kind() == constant.String {
		return ex.litSlice(st, []byte(constant.StringVal(c.Value)), true)
	}
	if c.Value.Kind() == constant.Bool {
		if constant.BoolVal(c.Value) {
			return VBool{"true"}
		}
		return VBool{"false"}
	}
	panic("constToVal")
}

func (e *specEnv) eval(x Expr) Val {
	switch n := x.(type) {
	case *EInt:
		return VInt{numFromString(n.V)}
	case *EBool:
		if n.V {
			return VBool{"true"}
		}
		return VBool{"false"}
	case *EStr:
		return e.ex.litSlicePure(e.cur(), []byte(n.V))
	case *EIdent:
		return e.lookup(n.Name)
	case *EOld:
		if e.old == nil {
			e.fail("old() without old state")
		}
		saved := e.inOld
		e.inOld = true
		v := e.eval(n.X)
		e.inOld = saved
		return v
	case *EUn:
		switch n.Op {
		case "!":
			return VBool{tNot(e.evalBool(n.X))}
		case "-":
			return VInt{tNeg(e.evalInt(n.X))}
		case "*":
			p := e.eval(n.X)
			switch a := p.(type) {
			case VCellPtr:
				v := e.cur().cells[a.C]
				for _, i := range a.Path {
					v = v.(VStruct).F[i]
				}
				return v
			}
			e.fail("cannot dereference %T", p)
		}
	case *EBin:
		return e.evalBin(n)
	case *EIndex:
		b := e.eval(n.X)
		if m, isMap := b.(VMap); isMap {
			// path-concrete map (package-level table) indexed by a string literal
			key, isLit := n.I.(*EStr)
			if !isLit || m.Unknown {
				e.fail("map index needs a concrete map and a string literal key")
			}
			for k, kk := range m.Keys {
				if kk == key.V {
					return m.Vals[k]
				}
			}
			e.fail("map has no key %q", key.V)
		}
		i := e.evalInt(n.I)
		s, ok := b.(VSlice)
		if !ok {
			e.fail("index of non-slice %T", b)
		}
		return e.readElemPure(s, i)
	case *ESlice:
		b := e.eval(n.X)
		s, ok := b.(VSlice)
		if !ok {
			e.fail("slice of non-slice %T", b)
		}
		lo := T("0")
		if n.Lo != nil {
			lo = e.evalInt(n.Lo)
		}
		hi := s.Len
		if n.Hi != nil {
			hi = e.evalInt(n.Hi)
		}
		return VSlice{R: s.R, Elem: s.Elem, Off: tAdd(s.Off, lo), Len: tSub(hi, lo), Cap: tSub(s.Cap, lo), Str: s.Str}
	case *EField:
		b := e.eval(n.X)
		return e.field(b, n.Name)
	case *ECall:
		return e.callSpec(n)
	case *EQuant:
		*e.qn++
		name := fmt.Sprintf("%s_q%d", n.Var, *e.qn)
		savedB, had := e.bound[n.Var]
		e.bound[n.Var] = name
		body := e.evalBool(n.Body)
		if had {
			e.bound[n.Var] = savedB
		} else {
			delete(e.bound, n.Var)
		}
		if n.Forall {
			return VBool{tForall(name, body)}
		}
		return VBool{tExists(name, body)}
	}
	e.fail("cannot evaluate %T", x)
	return nil
}

func numFromString(s string) T {
	bi, ok := new(big.Int).SetString(s, 10)
	if !ok {
		panic("bad int " + s)
	}
	return numBig(bi)
}

func (ex *Exec) litSlicePure(st *State, b []byte) VSlice {
	// literal in a spec: memory described by a store chain over a constant array (no facts needed)
	r := ex.newRegion("slit", false, true)
	m := zeroOfSort(SBytes)
	for i, c := range b {
		m = tStore(m, num(int64(i)), num(int64(c)))
	}
	st.mem[r] = []T{m}
	n := num(int64(len(b)))
	return VSlice{R: r, Elem: types.Typ[types.Uint8], Off: "0", Len: n, Cap: n, Str: true, Lit: append([]byte(nil), b...), HasLit: true}
}

func (e *specEnv) memOf(s VSlice) []T {
	if m, ok := e.cur().mem[s.R]; ok {
		return m
	}
	if m, ok := e.st.mem[s.R]; ok {
		return m
	}
	if e.old != nil {
		if m, ok := e.old.mem[s.R]; ok {
			return m
		}
	}
	e.fail("no memory for region %s", s.R.name)
	return nil
}

func (e *specEnv) readElemPure(s VSlice, idx T) Val {
	m := e.memOf(s)
	at := tIdx(s.Off, idx)
	comps := make([]T, len(m))
	for i, c := range m {
		comps[i] = tSel(c, at)
	}
	v, _ := e.ex.unflatten(e.cur(), comps, s.Elem, s.R.strict)
	return v
}

func (e *specEnv) field(b Val, name string) Val {
	switch v := b.(type) {
	case VRef:
		u := v.St.Underlying().(*types.Struct)
		for i := 0; i < u.NumFields(); i++ {
			if u.Field(i).Name() == name {
				return e.ex.heapLoadPure(e.cur(), v.St, i, v.T)
			}
		}
		if gk := namedKey(v.St) + ".$" + name; e.ex.prog.heapSorts[gk] != nil {
			arr := e.ex.ghostArr(e.cur(), gk)
			if e.ex.prog.heapSorts[gk][0] == arrOf(SBool) {
				return VBool{tSel(arr, v.T)}
			}
			return VInt{tSel(arr, v.T)}
		}
		e.fail("no field %s in %s", name, v.St)
	case VStruct:
		u := v.Typ.Underlying().(*types.Struct)
		for i := 0; i < u.NumFields(); i++ {
			if u.Field(i).Name() == name {
				return v.F[i]
			}
		}
		e.fail("no field %s", name)
	case VCellPtr:
		cv := e.cur().cells[v.C]
		return e.field(cv, name)
	}
	e.fail("field %s of %T", name, b)
	return nil
}

func (ex *Exec) heapLoadPure(st *State, n *types.Named, field int, ref T) Val {
	if in, ok := ex.embeddedType(n, field); ok {
		return VRef{embRef(ref, field), in}
	}
	arr := ex.heapArr(st, n, field)
	comps := make([]T, len(arr))
	for i, a := range arr {
		comps[i] = tSel(a, ref)
	}
	u := n.Underlying().(*types.Struct)
	v, _ := ex.unflatten(st, comps, u.Field(field).Type(), true)
	return v
}

func (e *specEnv) evalBin(n *EBin) Val {
	switch n.Op {
	case "&&":
		return VBool{tAnd(e.evalBool(n.X), e.evalBool(n.Y))}
	case "||":
		return VBool{tOr(e.evalBool(n.X), e.evalBool(n.Y))}
	case "==>":
		return VBool{tImp(e.evalBool(n.X), e.evalBool(n.Y))}
	case "<==>":
		return VBool{tEq(e.evalBool(n.X), e.evalBool(n.Y))}
	case "==", "!=":
		a, b := e.eval(n.X), e.eval(n.Y)
		r := e.equalVals(a, b)
		if n.Op == "!=" {
			r = tNot(r)
		}
		return VBool{r}
	}
	a, b := e.evalInt(n.X), e.evalInt(n.Y)
	switch n.Op {
	case "<":
		return VBool{tLt(a, b)}
	case "<=":
		return VBool{tLe(a, b)}
	case ">":
		return VBool{tGt(a, b)}
	case ">=":
		return VBool{tGe(a, b)}
	case "+":
		return VInt{tAdd(a, b)}
	case "-":
		return VInt{tSub(a, b)}
	case "*":
		return VInt{tMul(a, b)}
	case "/":
		if c, ok := isNum(b); ok && c.Sign() > 0 {
			return VInt{tDivC(a, c)}
		}
		return VInt{app("div", a, b)}
	case "%":
		if c, ok := isNum(b); ok && c.Sign() > 0 {
			return VInt{tModC(a, c)}
		}
		return VInt{app("mod", a, b)}
	}
	e.fail("operator %s", n.Op)
	return nil
}

func (e *specEnv) equalVals(a, b Val) T {
	switch x := a.(type) {
	case VInt:
		switch y := b.(type) {
		case VInt:
			return tEq(x.T, y.T)
		case VRef:
			return tEq(x.T, y.T)
		}
	case VBool:
		return tEq(x.T, b.(VBool).T)
	case VRef:
		switch y := b.(type) {
		case VRef:
			return tEq(x.T, y.T)
		case VNilPtr:
			return tEq(x.T, "0")
		case VInt:
			return tEq(x.T, y.T)
		}
	case VNilPtr:
		switch y := b.(type) {
		case VRef:
			return tEq(y.T, "0")
		case VSlice:
			return tEq(y.Cap, "0")
		case VFunc:
			return tEq(y.ID, "0")
		case VIface:
			return tEq(y.ID, "0")
		case VNilPtr:
			return "true"
		}
	case VFunc:
		switch y := b.(type) {
		case VFunc:
			return tEq(x.ID, y.ID)
		case VNilPtr:
			return tEq(x.ID, "0")
		}
	case VIface:
		switch y := b.(type) {
		case VIface:
			return tEq(x.ID, y.ID)
		case VNilPtr:
			return tEq(x.ID, "0")
		}
	case VOpaque:
		if y, ok := b.(VOpaque); ok {
			return tEq(x.T, y.T)
		}
	case VSlice:
		switch y := b.(type) {
		case VSlice:
			return e.sameElems(x, y)
		case VNilPtr:
			return tEq(x.Cap, "0")
		}
	case VStruct:
		if y, ok := b.(VStruct); ok {
			var cs []T
			for i := range x.F {
				cs = append(cs, e.equalVals(x.F[i], y.F[i]))
			}
			return tAnd(cs...)
		}
	}
	e.fail("cannot compare %T and %T", a, b)
	return ""
}

// sameElems: equal length and component-wise equal elements.
func (e *specEnv) sameElems(a, b VSlice) T {
	if isByteElem(a.Elem) && (a.HasLit || b.HasLit) {
		return e.seqEqLit(a, b)
	}
	ma, mb := e.memOf(a), e.memOf(b)
	*e.qn++
	q := fmt.Sprintf("se_q%d", *e.qn)
	var cs []T
	for i := range ma {
		cs = append(cs, tEq(tSel(ma[i], tIdx(a.Off, q)), tSel(mb[i], tIdx(b.Off, q))))
	}
	return tAnd(tEq(a.Len, b.Len), tForall(q, tImp(tAnd(tLe("0", q), tLt(q, a.Len)), tAnd(cs...))))
}

func (e *specEnv) seqEqLit(a, b VSlice) T {
	if b.HasLit && !a.HasLit {
		a, b = b, a
	}
	if b.HasLit {
		if string(a.Lit) == string(b.Lit) {
			return "true"
		}
		return "false"
	}
	mb := e.memOf(b)[0]
	cs := []T{tEq(b.Len, num(int64(len(a.Lit))))}
	for i, c := range a.Lit {
		cs = append(cs, tEq(tSel(mb, tIdx(b.Off, num(int64(i)))), num(int64(c))))
	}
	return tAnd(cs...)
}

// hasPrefixT: p is a prefix of s (byte sequences).
func (e *specEnv) hasPrefixT(s, p VSlice) T {
	return prefixTerm(e.ex, e.memOf(s)[0], s, e.memOf(p)[0], p)
}

func prefixTerm(ex *Exec, ms T, s VSlice, mp T, p VSlice) T {
	if p.HasLit {
		cs := []T{tLe(num(int64(len(p.Lit))), s.Len)}
		for i, c := range p.Lit {
			cs = append(cs, tEq(tSel(ms, tIdx(s.Off, num(int64(i)))), num(int64(c))))
		}
		return tAnd(cs...)
	}
	q := ex.decls.fresh("hp_q", SInt) // used as bound name; declared but harmless
	return tAnd(tLe(p.Len, s.Len), tForall(q, tImp(tAnd(tLe("0", q), tLt(q, p.Len)),
		tEq(tSel(ms, tIdx(s.Off, q)), tSel(mp, tIdx(p.Off, q))))))
}

func (e *specEnv) callSpec(n *ECall) Val {
	ex := e.ex
	argv := func(i int) Val { return e.eval(n.Args[i]) }
	switch n.Fn {
	case "len":
		switch v := argv(0).(type) {
		case VSlice:
			return VInt{v.Len}
		case VMap:
			if !v.Unknown {
				return VInt{num(int64(len(v.Keys)))}
			}
			return VInt{app(ex.decls.fun("maplen", []string{SInt}, SInt), v.ID)}
		}
		e.fail("len of non-slice")
	case "cap":
		return VInt{argv(0).(VSlice).Cap}
	case "off":
		return VInt{argv(0).(VSlice).Off}
	case "min":
		a, b := e.evalInt(n.Args[0]), e.evalInt(n.Args[1])
		return VInt{tIte(tLt(a, b), a, b)}
	case "max":
		a, b := e.evalInt(n.Args[0]), e.evalInt(n.Args[1])
		return VInt{tIte(tGt(a, b), a, b)}
	case "ite":
		c := e.evalBool(n.Args[0])
		a, b := argv(1), argv(2)
		switch x := a.(type) {
		case VInt:
			return VInt{tIte(c, x.T, b.(VInt).T)}
		case VBool:
			return VBool{tIte(c, x.T, b.(VBool).T)}
		}
		e.fail("ite on %T", a)
	case "hasPrefix":
		return VBool{e.hasPrefixT(argv(0).(VSlice), argv(1).(VSlice))}
	case "sameSlice":
		// same view of the same memory: equal offset, length and (whole) memory
		a, b := argv(0).(VSlice), argv(1).(VSlice)
		ma, mb := e.memOf(a), e.memOf(b)
		cs := []T{tEq(a.Off, b.Off), tEq(a.Len, b.Len)}
		for i := range ma {
			cs = append(cs, tEq(ma[i], mb[i]))
		}
		return VBool{tAnd(cs...)}
	case "isSuffixView":
		// a is the view b[k:] for some k: same memory, off(a)+len(a) == off(b)+len(b), off(a) >= off(b)
		a, b := argv(0).(VSlice), argv(1).(VSlice)
		ma, mb := e.memOf(a), e.memOf(b)
		cs := []T{tLe(b.Off, a.Off), tEq(tAdd(a.Off, a.Len), tAdd(b.Off, b.Len))}
		for i := range ma {
			cs = append(cs, tEq(ma[i], mb[i]))
		}
		return VBool{tAnd(cs...)}
	case "isPrefixView":
		a, b := argv(0).(VSlice), argv(1).(VSlice)
		ma, mb := e.memOf(a), e.memOf(b)
		cs := []T{tEq(b.Off, a.Off), tLe(a.Len, b.Len)}
		for i := range ma {
			cs = append(cs, tEq(ma[i], mb[i]))
		}
		return VBool{tAnd(cs...)}
	case "isSubView":
		a, b := argv(0).(VSlice), argv(1).(VSlice)
		ma, mb := e.memOf(a), e.memOf(b)
		cs := []T{tLe(b.Off, a.Off), tLe(tAdd(a.Off, a.Len), tAdd(b.Off, b.Len)), tLe("0", a.Len)}
		for i := range ma {
			cs = append(cs, tEq(ma[i], mb[i]))
		}
		return VBool{tAnd(cs...)}
	case "at":
		// at(k, e): value of e at the head of loop k in the current iteration
		k, ok := n.Args[0].(*EInt)
		if !ok {
			e.fail("at(k, e): k must be a literal loop ordinal")
		}
		var ki int
		fmt.Sscan(k.V, &ki)
		hs := e.st.heads[ki]
		if hs == nil {
			e.fail("at(%d, ...): loop %d is not open here", ki, ki)
		}
		saved := e.st
		e.st = hs
		v := e.eval(n.Args[1])
		e.st = saved
		return v
	case "held":
		// held(R) / held(W) / held(none): the ghost state of the tree lock
		want := n.Args[0].(*EIdent).Name
		have := e.f.heldNow(e.cur())
		if have == want || (want == "R" && have == "W") {
			return VBool{"true"}
		}
		return VBool{"false"}
	case "xmlHasDecl":
		b := argv(0).(VSlice)
		return VBool{app(ex.decls.fun("xmlHasDecl", []string{SBytes, SInt, SInt}, SBool), e.memOf(b)[0], b.Off, b.Len)}
	case "errid":
		switch v := argv(0).(type) {
		case VIface:
			return VInt{v.ID}
		case VInt:
			return v
		}
		e.fail("errid of non-error")
	case "ioEOF":
		return VInt{errID(ex.extGlobal(e.cur(), "io", "EOF"))}
	case "ioUnexpectedEOF":
		return VInt{errID(ex.extGlobal(e.cur(), "io", "ErrUnexpectedEOF"))}
	case "trimSpace":
		b := argv(0).(VSlice)
		return ex.trimSpaceOf(e.cur(), e.memOf(b)[0], b, false)
	case "formatMedia":
		// formatMedia(t, ps): what mime.FormatMediaType returns for type t and parameters ps
		t := argv(0).(VSlice)
		id := T("0")
		if m, ok := argv(1).(VMap); ok {
			id = m.ID
		}
		return ex.fmtMediaOf(e.cur(), e.memOf(t)[0], t, id)
	case "xmlInst", "xmlEnc", "lowerOf":
		// uninterpreted views: xmlInst(doc) the text of the XML declaration as encoding/xml returns it,
		// xmlEnc(inst) what charset.xmlEncoding extracts from it, lowerOf(s) strings.ToLower(s)
		s := argv(0).(VSlice)
		return ex.ufView(e.cur(), n.Fn, e.memOf(s)[0], s, n.Fn != "xmlInst")
	case "pmt":
		// pmt(s): the media type that mime.ParseMediaType extracts from s (assumed library function)
		s := argv(0).(VSlice)
		return ex.pmtOf(e.cur(), e.memOf(s)[0], s)
	case "store":
		// store(s, i, v): s with element i replaced by v (a different memory)
		b := argv(0).(VSlice)
		i := e.evalInt(n.Args[1])
		v := e.evalInt(n.Args[2])
		r := ex.newRegion("upd", b.R.strict, false)
		e.cur().mem[r] = []T{tStore(e.memOf(b)[0], tIdx(b.Off, i), v)}
		return VSlice{R: r, Elem: b.Elem, Off: b.Off, Len: b.Len, Cap: b.Cap, Str: b.Str}
	case "view":
		// view(s, o, n): the n bytes of s's memory at absolute offset o (o is an address, not an index)
		b := argv(0).(VSlice)
		return VSlice{R: b.R, Elem: b.Elem, Off: e.evalInt(n.Args[1]), Len: e.evalInt(n.Args[2]), Cap: e.evalInt(n.Args[2]), Str: b.Str}
	case "HEAPTOP":
		return VInt{ex.heapTop()}
	case "u32":
		return VInt{tModC(e.evalInt(n.Args[0]), pow2(32))}
	case "int":
		return VInt{e.evalInt(n.Args[0])}
	case "fresh":
		// fresh(x): allocated since function entry (at a call site: during the call) and existing now
		r := argv(0).(VRef)
		lo := ex.heapTop()
		if e.callPre != nil && !e.inOld {
			lo = ex.frontierOf(e.callPre)
		}
		return VBool{tAnd(tLt(lo, r.T), tLt(ex.heapTop(), r.T), tLe(r.T, ex.frontierOf(e.cur())))}
	case "allocated":
		// allocated(x): existed at function entry
		r := argv(0).(VRef)
		if e.callPre != nil {
			// at a call site the callee's entry is the caller's state before the call
			return VBool{tAnd(tLt("0", r.T), tLe(r.T, ex.frontierOf(e.callPre)))}
		}
		return VBool{tAnd(tLt("0", r.T), tLe(r.T, ex.heapTop()))}
	case "closure":
		// closure(v, "pkg.fn$1"): the function value v is that closure (package initialisers are executed
		// concretely, so detector variables hold concrete closures)
		fv, ok := argv(0).(VFunc)
		name := n.Args[1].(*EStr).V
		if !ok || fv.Fn == nil {
			return VBool{"false"}
		}
		if ex.prog.keyOf(fv.Fn) == name {
			return VBool{"true"}
		}
		return VBool{"false"}
	case "freevar":
		// freevar(v, "x"): the value captured for free variable x by the closure v
		fv, ok := argv(0).(VFunc)
		name := n.Args[1].(*EStr).V
		if !ok || fv.Fn == nil {
			e.fail("freevar of a non-closure")
		}
		for i, f := range fv.Fn.FreeVars {
			if f.Name() == name && i < len(fv.Free) {
				if cp, isCell := fv.Free[i].(VCellPtr); isCell {
					if v, live := e.cur().cells[cp.C]; live {
						return v
					}
				}
				return fv.Free[i]
			}
		}
		e.fail("closure has no free variable %q", name)
	case "loads":
		// loads(): how many atomic reads of shared variables this execution has performed
		if c, ok := e.cur().ghost["atomic_loads"].(VInt); ok {
			return c
		}
		e.fail("no atomic load counter in this state")
	case "existing":
		r := argv(0).(VRef)
		return VBool{tAnd(tLt("0", r.T), tLe(r.T, ex.frontierOf(e.cur())))}
	case "validUTF8":
		s := argv(0).(VSlice)
		if bs, ok := e.concreteBytes(s); ok {
			// concrete argument (replay of observed values): the real definition
			if utf8.Valid(bs) {
				return VBool{"true"}
			}
			return VBool{"false"}
		}
		return VBool{app(ex.validUTF8Fn(), e.memOf(s)[0], s.Off, s.Len)}
	case "det":
		// det(fn, raw, limit): the meaning of a Detector call
		fn := ex.decls.fun("det", []string{SInt, SBytes, SInt, SInt, SInt}, SBool)
		var id T
		switch v := argv(0).(type) {
		case VFunc:
			id = v.ID
		default:
			e.fail("det of %T", v)
		}
		raw := argv(1).(VSlice)
		return VBool{app(fn, id, e.memOf(raw)[0], raw.Off, raw.Len, e.evalInt(n.Args[2]))}
	}
	// cast of an integer to a reference of a heap-modelled struct type: MIME(r)
	for hk, nt := range ex.prog.heapTypes {
		if strings.HasSuffix(hk, "."+n.Fn) && len(n.Args) == 1 {
			return VRef{e.evalInt(n.Args[0]), nt}
		}
	}
	if uf, ok := ex.prog.ufuns[n.Fn]; ok {
		var args []T
		for i := range n.Args {
			v := argv(i)
			args = append(args, e.flattenArg(v)...)
		}
		name := ex.decls.fun(uf.Name, uf.ArgSorts, uf.Ret)
		if uf.Ret == SBool {
			return VBool{app(name, args...)}
		}
		return VInt{app(name, args...)}
	}
	if sfn, ok := ex.prog.spec.Specs[n.Fn]; ok {
		if len(sfn.Params) != len(n.Args) {
			e.fail("spec %s: arity", n.Fn)
		}
		saved := map[string]Val{}
		had := map[string]bool{}
		vals := make([]Val, len(n.Args))
		for i := range n.Args {
			vals[i] = argv(i)
		}
		savedBound := map[string]T{}
		for i, p := range sfn.Params {
			if v, ok := e.vars[p]; ok {
				saved[p] = v
				had[p] = true
			}
			e.vars[p] = vals[i]
			// parameters shadow quantified variables of the same name in the caller
			if b, ok := e.bound[p]; ok {
				savedBound[p] = b
				delete(e.bound, p)
			}
		}
		defer func() {
			for k, v := range savedBound {
				e.bound[k] = v
			}
		}()
		// spec bodies must not see loop-local cells: evaluate with explicit bindings first
		out := e.eval(sfn.Body)
		for _, p := range sfn.Params {
			if had[p] {
				e.vars[p] = saved[p]
			} else {
				delete(e.vars, p)
			}
		}
		return out
	}
	e.fail("unknown spec function %s", n.Fn)
	return nil
}

func (e *specEnv) flattenArg(v Val) []T {
	switch x := v.(type) {
	case VInt:
		return []T{x.T}
	case VBool:
		return []T{x.T}
	case VRef:
		return []T{x.T}
	case VFunc:
		return []T{x.ID}
	case VSlice:
		return append(append([]T(nil), e.memOf(x)...), x.Off, x.Len)
	}
	e.fail("cannot pass %T to uninterpreted function", v)
	return nil
}

// concreteBytes extracts the bytes of a slice whose length and contents are numerals.
func (e *specEnv) concreteBytes(s VSlice) ([]byte, bool) {
	n, ok := isNum(s.Len)
	if !ok || !n.IsInt64() || n.Int64() < 0 || n.Int64() > 1<<20 {
		return nil, false
	}
	m := e.memOf(s)[0]
	out := make([]byte, n.Int64())
	for i := range out {
		v, ok := isNum(tSel(m, tIdx(s.Off, num(int64(i)))))
		if !ok || !v.IsInt64() {
			return nil, false
		}
		out[i] = byte(v.Int64())
	}
	return out, true
}

func (ex *Exec) validUTF8Fn() string {
	return ex.decls.fun("validUTF8", []string{SBytes, SInt, SInt}, SBool)
}

func exprString(x Expr) string {
	switch n := x.(type) {
	case *EInt:
		return n.V
	case *EBool:
		return fmt.Sprint(n.V)
	case *EStr:
		return fmt.Sprintf("%q", n.V)
	case *EIdent:
		return n.Name
	case *EOld:
		return "old(" + exprString(n.X) + ")"
	case *EUn:
		return n.Op + exprString(n.X)
	case *EBin:
		return "(" + exprString(n.X) + " " + n.Op + " " + exprString(n.Y) + ")"
	case *EIndex:
		return exprString(n.X) + "[" + exprString(n.I) + "]"
	case *ESlice:
		lo, hi := "", ""
		if n.Lo != nil {
			lo = exprString(n.Lo)
		}
		if n.Hi != nil {
			hi = exprString(n.Hi)
		}
		return exprString(n.X) + "[" + lo + ":" + hi + "]"
	case *EField:
		return exprString(n.X) + "." + n.Name
	case *ECall:
		var as []string
		for _, a := range n.Args {
			as = append(as, exprString(a))
		}
		return n.Fn + "(" + strings.Join(as, ", ") + ")"
	case *EQuant:
		q := "exists"
		if n.Forall {
			q = "forall"
		}
		return q + " " + n.Var + " :: " + exprString(n.Body)
	}
	return "?"
}
