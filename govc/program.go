package main

import (
	"fmt"
	"go/token"
	"go/types"
	"os"
	"sort"
	"strings"
	"sync"

	"golang.org/x/tools/go/packages"
	"golang.org/x/tools/go/ssa"
	"golang.org/x/tools/go/ssa/ssautil"
)

type UFun struct {
	Name     string
	ArgSorts []string
	Ret      string
}

type Program struct {
	fset        *token.FileSet
	prog        *ssa.Program
	pkgs        []*ssa.Package // repo packages
	byName      map[string]*ssa.Package
	funcs       map[string]*ssa.Function // key -> function (incl. closures)
	keys        map[*ssa.Function]string
	contracts   map[string]*Contract
	spec        *SpecFile
	specFiles   []string
	heapSorts   map[string][]string
	heapTypes   map[string]*types.Named
	ufuns       map[string]*UFun
	forceUnroll map[string]bool

	mu             sync.Mutex
	loopCache      map[*ssa.Function]map[*ssa.BasicBlock]*loopInfo
	ordCache       map[*ssa.Function]map[ssa.Instruction]int
	funcIDs        map[*ssa.Function]int
	funcByID       map[T]VFunc
	nextFn         int
	poolTypes      map[*ssa.Global]types.Type
	poolNew        map[*ssa.Function]*ssa.Global
	stores         map[*ssa.Global]int // number of Store instructions to each global outside init
	repoRoot       string
	initVals       map[*ssa.Global]func(ex *Exec, st *State) Val
	staleContracts []string
	baseLoops   map[string]int // number of loops of each contracted function when the baseline was written
	loopRemap   map[string]map[int]int // function key -> loop ordinal in the code -> loop ordinal in the contract
	renames     map[string]map[string]string // function key -> old name -> current name (names.go)
	renameNotes []string
	autoDead map[string]bool // dropped inferred invariants: loopKey|label
	autoVar  map[string]int  // which candidate variant is being tried per loop
}

const repoModule = "github.com/gabriel-vasile/mimetype"

func loadProgram(root string) (*Program, error) {
	cfg := &packages.Config{Mode: packages.LoadAllSyntax, Dir: root, BuildFlags: []string{"-tags=verif"},
		Env: append(os.Environ(), "GOFLAGS=-mod=mod", "GOPROXY=off", "GOSUMDB=off", "GOTOOLCHAIN=local")}
	pkgs, err := packages.Load(cfg, "./...")
	if err != nil {
		return nil, err
	}
	nerr := 0
	packages.Visit(pkgs, nil, func(p *packages.Package) {
		for _, e := range p.Errors {
			if strings.HasPrefix(p.PkgPath, repoModule) {
				fmt.Fprintln(os.Stderr, "load error:", e)
				nerr++
			}
		}
	})
	if nerr > 0 {
		return nil, fmt.Errorf("%d load errors (the repository does not compile)", nerr)
	}
	sprog, spkgs := ssautil.AllPackages(pkgs, ssa.NaiveForm|ssa.BareInits)
	p := &Program{fset: sprog.Fset, prog: sprog, byName: map[string]*ssa.Package{}, funcs: map[string]*ssa.Function{},
		keys: map[*ssa.Function]string{}, heapSorts: map[string][]string{}, heapTypes: map[string]*types.Named{},
		ufuns: map[string]*UFun{}, forceUnroll: map[string]bool{},
		loopCache: map[*ssa.Function]map[*ssa.BasicBlock]*loopInfo{}, ordCache: map[*ssa.Function]map[ssa.Instruction]int{},
		funcIDs: map[*ssa.Function]int{}, funcByID: map[T]VFunc{}, nextFn: 1000,
		autoDead: map[string]bool{}, autoVar: map[string]int{}, poolTypes: map[*ssa.Global]types.Type{}, poolNew: map[*ssa.Function]*ssa.Global{}, stores: map[*ssa.Global]int{}, repoRoot: root}
	_ = spkgs
	for _, sp := range sprog.AllPackages() {
		if !strings.HasPrefix(sp.Pkg.Path(), repoModule) {
			continue
		}
		sp.Build()
		p.pkgs = append(p.pkgs, sp)
		p.byName[sp.Pkg.Name()] = sp
	}
	sort.Slice(p.pkgs, func(i, j int) bool { return p.pkgs[i].Pkg.Path() < p.pkgs[j].Pkg.Path() })
	for _, sp := range p.pkgs {
		for _, m := range sp.Members {
			switch x := m.(type) {
			case *ssa.Function:
				p.addFunc(x)
			case *ssa.Type:
				if n, ok := x.Type().(*types.Named); ok {
					if st, isSt := n.Underlying().(*types.Struct); isSt {
						for i := 0; i < st.NumFields(); i++ {
							k := namedKey(n) + "." + st.Field(i).Name()
							var ss []string
							for _, s := range sortsOf(st.Field(i).Type()) {
								ss = append(ss, arrOf(s))
							}
							p.heapSorts[k] = ss
							p.heapTypes[namedKey(n)] = n
						}
					}
					ms := sprog.MethodSets.MethodSet(types.NewPointer(n))
					for i := 0; i < ms.Len(); i++ {
						if fn := sprog.MethodValue(ms.At(i)); fn != nil && fn.Pkg == sp {
							p.addFunc(fn)
						}
					}
					ms = sprog.MethodSets.MethodSet(n)
					for i := 0; i < ms.Len(); i++ {
						if fn := sprog.MethodValue(ms.At(i)); fn != nil && fn.Pkg == sp && fn.Synthetic == "" {
							p.addFunc(fn)
						}
					}
				}
			}
		}
	}
	sf, files, err := loadSpecFiles(root)
	if err != nil {
		return nil, err
	}
	p.spec = sf
	p.specFiles = files
	p.contracts = sf.Contracts
	for k, v := range sf.UFuns {
		p.ufuns[k] = v
	}
	for k, sort := range sf.GhostFields {
		// k = pkg.Type.field
		i := strings.LastIndex(k, ".")
		p.heapSorts[k[:i]+".$"+k[i+1:]] = []string{arrOf(sort)}
	}
	for k := range sf.Contracts {
		if _, ok := p.funcs[k]; !ok {
			// the function was removed or renamed: its contract is dropped (its baseline obligations
			// are reported as gone); callers are verified against the code that is there now
			p.staleContracts = append(p.staleContracts, k)
			delete(sf.Contracts, k)
		}
	}
	sort.Strings(p.staleContracts)
	p.scanGlobals()
	p.loadRenames()
	return p, nil
}

func (p *Program) addFunc(fn *ssa.Function) {
	if fn.Blocks == nil {
		return
	}
	if _, ok := p.keys[fn]; ok {
		return
	}
	k := fn.Pkg.Pkg.Name() + "." + fn.RelString(fn.Pkg.Pkg)
	p.keys[fn] = k
	p.funcs[k] = fn
	for _, a := range fn.AnonFuncs {
		p.addAnon(a)
	}
}
func (p *Program) addAnon(fn *ssa.Function) {
	pk := fn.Parent()
	for pk.Parent() != nil {
		pk = pk.Parent()
	}
	k := pk.Pkg.Pkg.Name() + "." + fn.RelString(pk.Pkg.Pkg)
	p.keys[fn] = k
	p.funcs[k] = fn
	for _, a := range fn.AnonFuncs {
		p.addAnon(a)
	}
}

func (p *Program) keyOf(fn *ssa.Function) string {
	if k, ok := p.keys[fn]; ok {
		return k
	}
	return fn.String()
}

func (p *Program) inRepo(fn *ssa.Function) bool {
	_, ok := p.keys[fn]
	return ok
}

func (p *Program) loopsOf(fn *ssa.Function) map[*ssa.BasicBlock]*loopInfo {
	p.mu.Lock()
	defer p.mu.Unlock()
	if l, ok := p.loopCache[fn]; ok {
		return l
	}
	l := computeLoops(fn)
	p.loopCache[fn] = l
	return l
}
func (p *Program) ordinalsOf(fn *ssa.Function) map[ssa.Instruction]int {
	p.mu.Lock()
	defer p.mu.Unlock()
	if l, ok := p.ordCache[fn]; ok {
		return l
	}
	l := computeOrdinals(fn)
	p.ordCache[fn] = l
	return l
}

func (p *Program) heapModelled(n *types.Named) bool {
	_, ok := p.heapTypes[namedKey(n)]
	return ok
}

func (p *Program) funcVal(fn *ssa.Function, free []Val) VFunc {
	p.mu.Lock()
	defer p.mu.Unlock()
	if len(free) == 0 {
		id, ok := p.funcIDs[fn]
		if !ok {
			p.nextFn++
			id = p.nextFn
			p.funcIDs[fn] = id
		}
		v := VFunc{Fn: fn, ID: num(int64(id))}
		p.funcByID[v.ID] = v
		return v
	}
	p.nextFn++
	v := VFunc{Fn: fn, Free: free, ID: num(int64(p.nextFn))}
	p.funcByID[v.ID] = v
	return v
}

// scanGlobals: which globals are ever stored to outside package initialisers, and the
// dynamic type of objects held by sync.Pool globals.
func (p *Program) scanGlobals() {
	for _, fn := range p.funcs {
		isInit := fn.Name() == "init" || (fn.Parent() != nil && fn.Parent().Name() == "init")
		for _, b := range fn.Blocks {
			for _, ins := range b.Instrs {
				st, ok := ins.(*ssa.Store)
				if !ok {
					continue
				}
				var root ssa.Value = st.Addr
				for {
					switch x := root.(type) {
					case *ssa.FieldAddr:
						root = x.X
						continue
					case *ssa.IndexAddr:
						root = x.X
						continue
					}
					break
				}
				if g, ok := root.(*ssa.Global); ok {
					if !isInit {
						p.stores[g]++
					}
					// sync.Pool{New: f}
					if fa, ok := st.Addr.(*ssa.FieldAddr); ok && fa.X == g && isInit {
						if named, ok := g.Type().(*types.Pointer).Elem().(*types.Named); ok && named.Obj().Name() == "Pool" {
							var newFn *ssa.Function
							switch v := st.Val.(type) {
							case *ssa.Function:
								newFn = v
							case *ssa.MakeClosure:
								newFn = v.Fn.(*ssa.Function)
							}
							if newFn != nil {
								p.poolNew[newFn] = g
								for _, nb := range newFn.Blocks {
									for _, ni := range nb.Instrs {
										if mi, ok := ni.(*ssa.MakeInterface); ok {
											p.poolTypes[g] = mi.X.Type()
										}
									}
								}
							}
						}
					}
				}
			}
		}
	}
	// atomic stores through &global passed to sync/atomic
	for _, fn := range p.funcs {
		for _, b := range fn.Blocks {
			for _, ins := range b.Instrs {
				if c, ok := ins.(*ssa.Call); ok {
					if sc := c.Call.StaticCallee(); sc != nil && strings.HasPrefix(sc.String(), "sync/atomic.Store") {
						if g, ok := c.Call.Args[0].(*ssa.Global); ok {
							p.stores[g]++
						}
					}
				}
			}
		}
	}
}

// ---------------------------------------------------------------------------
// Globals in a symbolic state. Each Exec keeps one cell per global.

func (ex *Exec) gcell(g *ssa.Global) *Cell {
	if ex.gcells == nil {
		ex.gcells = map[*ssa.Global]*Cell{}
	}
	c, ok := ex.gcells[g]
	if !ok {
		c = ex.newCell("g_"+g.Name(), g.Type().(*types.Pointer).Elem())
		ex.gcells[g] = c
	}
	return c
}

func (p *Program) initGlobals(ex *Exec, st *State, pkg *ssa.Package) {}

func (p *Program) globalLoad(ex *Exec, st *State, g *ssa.Global) Val {
	c := ex.gcell(g)
	if v, ok := st.cells[c]; ok {
		return v
	}
	var v Val
	if iv, ok := p.initValue(ex, st, g); ok {
		v = iv
	} else {
		v = ex.entryGlobal(st, g, c.typ)
		ex.typeFacts(st, v, c.typ)
	}
	st.cells[c] = v
	return v
}

func (p *Program) globalStore(ex *Exec, st *State, g *ssa.Global, v Val) {
	st.cells[ex.gcell(g)] = v
}

func (p *Program) globalHavoc(ex *Exec, st *State, g *ssa.Global) {
	c := ex.gcell(g)
	st.cells[c] = ex.freshVal(st, "g_"+g.Name(), c.typ, true)
}

func (p *Program) sortedKeys() []string {
	var ks []string
	for k := range p.funcs {
		ks = append(ks, k)
	}
	sort.Strings(ks)
	return ks
}

// entryGlobal: the (arbitrary) value a global has at function entry. Scalars and pointers get
// a symbol named after the global, so that the entry state and later states agree on it however
// late it is first read.
func (ex *Exec) entryGlobal(st *State, g *ssa.Global, t types.Type) Val {
	name := "g0_" + g.Pkg.Pkg.Name() + "_" + g.Name()
	switch u := t.Underlying().(type) {
	case *types.Basic:
		if u.Info()&types.IsBoolean != 0 {
			return VBool{ex.decls.named(name, SBool)}
		}
		if u.Info()&types.IsInteger != 0 {
			x := ex.decls.named(name, SInt)
			st.assume(rangeFact(t, x))
			return VInt{x}
		}
	case *types.Pointer:
		if n, ok := heapStructName(u.Elem()); ok {
			x := ex.decls.named(name, SInt)
			st.assume(tLe("0", x))
			return VRef{x, n}
		}
	case *types.Signature:
		x := ex.decls.named(name, SInt)
		st.assume(tLe("0", x))
		return VFunc{ID: x}
	case *types.Interface:
		return VIface{ID: ex.decls.named(name, SInt)}
	}
	return ex.freshVal(st, "g_"+g.Name(), t, true)
}

func (p *Program) loopRemapOf(key string) map[int]int {
	p.mu.Lock()
	defer p.mu.Unlock()
	return p.loopRemap[key]
}

func (p *Program) setLoopRemap(key string, m map[int]int) {
	p.mu.Lock()
	defer p.mu.Unlock()
	if p.loopRemap == nil {
		p.loopRemap = map[string]map[int]int{}
	}
	if m == nil {
		delete(p.loopRemap, key)
	} else {
		p.loopRemap[key] = m
	}
}

func (p *Program) lookupFuncByID(id T) (VFunc, bool) {
	p.mu.Lock()
	defer p.mu.Unlock()
	f, ok := p.funcByID[id]
	return f, ok
}

func (p *Program) autoAlive(loopKey, label string) bool {
	p.mu.Lock()
	defer p.mu.Unlock()
	return !p.autoDead[loopKey+"|"+label]
}

func (p *Program) autoVariantIdx(loopKey string) int {
	p.mu.Lock()
	defer p.mu.Unlock()
	return p.autoVar[loopKey]
}
