#!/usr/bin/env python3
"""Regenerates /verif/MANIFEST.json from the table below and validates it and the evidence files."""
import json, subprocess, sys, os
props = [json.loads(l) for l in open('/verif/properties.jsonl')]
ids = [p['id'] for p in props]
TECH = "contract-based deductive verification: VCs generated from go/ssa of the real code, discharged by z3/cvc5"
claimed = {
 "C01": ("proof", "Every implicit run-time check of Go (index, slice bounds under the strict len rule for caller/pooled memory, nil dereference, nil function call, failed type assertion, division, make), signed overflow, and termination (loop variants, recursion measures) of every function in all four packages is an obligation discharged by SMT for all inputs and all loop iterations; each registered detector function/closure is verified as an entry point with arbitrary (raw, limit) and arbitrary captured signatures; tree functions are verified against the tree invariant TI.", "5 C01",
         "library functions are assumed total and panic-free (listed in evidence); Detector values installed by Extend obey the Detector type contract; machine.len48; package initialisers are executed concretely; DetectFile/DetectReader rest on documented io/os contracts"),
 "C02": ("proof", "On the real clone/cloneHierarchy/match/Detect* functions: results are fresh objects whose extension and aliases are those of the matched node; the MIME string equals the registered one except on text/plain, text/html, text/xml (the only types that get a parameter); the first ancestor carries the registered string unchanged; on error DetectReader/DetectFile return exactly errMIME; init facts: errMIME and root are application/octet-stream with no parent (checked on the concretely executed initialiser).", "5 C02",
         "N/A inside: that mime.ParseMediaType accepts FormatMediaType's output for hostile charset labels is the standard library's round trip (assumed); ancestors beyond the first are covered by the loop invariant of cloneHierarchy only as far as C03 states"),
 "C03": ("proof", "match is proved equal to the spec function leaf (first accepting child in priority order, recursively; two unfolding equations) for every tree satisfying the tree invariant TI, by a quantified loop invariant (all earlier children rejected) and the modular recursive contract; Detect/DetectReader are proved to start that walk at root on exactly the examined header; cloneHierarchy mirrors the matched node and its first ancestor; TI is established by init, preserved by Extend and by every tree function (dense allocation-frontier heap model).", "5 C03",
         "ancestors beyond the first are not pinned field-by-field (no ghost chain); dynamically called detectors obey the Detector type contract (pure, total)"),
 "C04": ("proof", "Frame rule: every heap store of every function under contract targets its assigns clause or an object allocated in the call (#frame); no store or in-place append into memory of an input parameter (#frame.input); pooled JSON state: top-level scan requires the reset state (Parse must reset), reset covers every field that is written during use, pool invariants are established and preserved; no function outside SetLimit/Extend/init stores to a package-level variable; pooled bufio.Reader is Reset after Get.", "5 C04",
         "determinism of the sequential Go subset given equal read footprints is a meta-assumption; bufio.Reader.Reset discards buffered state (assumed); html tokenizer works on a private copy (assumed)"),
 "C05": ("proof", "DetectReader is proved against documented io contracts: at most limit bytes are taken from the reader when limit > 0; a read failure other than EOF/ErrUnexpectedEOF surfaces as (errMIME, that error); otherwise err is nil and the walk runs on exactly the bytes delivered, with the same leaf contract as Detect; DetectFile returns errMIME on any error.", "5 C05",
         "chunking schedules live inside io.ReadFull/io.ReadAll, whose documented contracts are assumed, not proved"),
 "C06": ("other", "Lock/ownership discipline as ghost-state obligations on the real code: lock protocol (RLock/RUnlock/Lock/Unlock pairing), every read of the guarded field MIME.children under R or W and every write under W unless the object is unpublished, read-modify-write of the guarded field within one critical section, no in-place append into shared memory under a read lock, tree functions require the lock from their callers, readLimit only through sync/atomic.", "5 C06",
         "schedule enumeration is outside this family (N/A); data-race freedom follows from the discipline by the lockset argument (meta-assumption); sync primitives are assumed"),
 "C07": ("proof", "Text and FromBOM are proved equal to the statement's predicate (BOM prefix, or no WHATWG binary data byte) for all inputs: both directions, as postconditions of the real functions with a quantified loop invariant.", "5 C07",
         "tree-level placement of the text node (last root child) is part of the tree facts of C03; bytes.HasPrefix assumed contract"),
 "C08": ("other", "Necessary conditions of completeness are proved on the real scanner: exact byte accounting on success (inspected == parsed, J1) and no byte counted twice (J2) for all eight scanner functions; the level argument equals the nesting depth (ghost depth), so the recursion cap refuses only documents nested deeper than the cap; jsonHelper applies the whole-document test (parsed == len) exactly when limit == 0 or len(raw) < limit and the truncated test (inspected == len, len > 0) otherwise, on the length of the detector's input.", "5 C08",
         "the unbounded completeness theorem (every RFC 8259 document, cut anywhere, is accepted) needs induction over derivations and is NOT discharged; no bounded stand-in was built in this session"),
 "C09": ("proof", "Necessary conditions of soundness are proved on the real scanner (tier A): every accepted string, array and object ends in its closing delimiter; no byte is counted twice (inspected <= len); LooksLikeObjectOrArray is exact for the first non-space byte; jsonHelper reports JSON for a whole document only when Parse's complete-value output covers the entire input.", "5 C09",
         "soundness against the full relaxed grammar (tier B) and truncated-mode prefix soundness are NOT discharged"),
 "C10": ("proof", "The path-stack discipline that sub-type decisions rest on is proved as postconditions of the real scanner functions: every successfully consumed value, array and object leaves p.currPath exactly as it found it (sequence equality), the stack never shrinks below its entry height, and loop invariants carry it through every iteration. Completeness of the query engine (exactly-when) is not claimed here.", "5 C10",
         "modular: callee contracts of the JSON scanner functions; bytes.Equal/TrimSpace assumed contracts"),
 "C11": ("proof", "FromPlain/ascii/latin are proved against the statement: BOM precedence, utf-8 only for UTF-8 valid up to a cut-off final sequence (E2), utf-8 always for ASCII text or valid/cut UTF-8 with a non-ASCII character (E3, all cut lengths 0..3), windows-1252 exactly when a C1 byte occurs (E4). UTF-8 well-formedness is transcribed from RFC 3629; utf8.FullRune/RuneStart are modelled exactly.", "5 C11",
         "utf8.Valid is an uninterpreted predicate with two assumed facts: all-ASCII is valid (U1), a valid non-empty string ends in a complete well-formed sequence (U2)"),
 "C13": ("proof", "dropLastLine is proved against a complete functional contract (whole input kept below the limit; cut at the last newline otherwise); NdJSON is proved to accept only inputs all of whose lines are empty or complete JSON values, by a continuation-form loop invariant over the recursive line predicate; completeness of a line is the completeness output of json.Parse.", "5 C13",
         "CSV field semantics are encoding/csv's (assumed); linesOK recursion axioms are trusted spec; parseComplete is defined as Parse's observable completeness (determinism: C04)"),
 "C14": ("proof", "Extend is proved to prepend exactly one fresh node with the given detector, name, extension, aliases and parent, to keep every older sibling in order behind it, to modify nothing else (frame), to hold the write lock for the publication and to preserve the tree invariant (ghost depth of the new node, depth bound raised by one); with C03's first-match contract this gives priority over older siblings.", "5 C14",
         "the multi-level non-interference consequence (inputs rejected by every extension are classified as before) needs structural induction over the tree and is argued in DESIGN.md, not discharged"),
 "C15": ("proof", "Is and EqualsAny are proved equal to their statement over the uninterpreted normalisation pmt (ParseMediaType's first result); lookup is proved sound (a returned node answers to the name), reflexive, and equal to the unfolded depth-first characterisation (found iff this node answers or some child's search hits).", "5 C15",
         "invariance of ParseMediaType under case, whitespace and parameters is the standard library's (assumed)"),
 "C16": ("proof", "The recursion measure (maxRecursion + 9 - lvl, rank) of the JSON scanner SCC is input-independent; every recursive call is shown to decrease it and stay non-negative; the pool type invariant maxRecursion == 4096 is established by the pool constructor and no other instruction stores to it (whole-program scan); every caller of the scanner establishes 1 <= cap <= 65536.", "5 C16",
         "frames of the assumed libraries are iterative; the exact cap value and off-by-one variants of the guard are deliberately not pinned"),
 "C17": ("proof", "For each of the 96 non-text children of the root node, enumerated from the concretely executed package initialiser, the real detector is executed twice over one shared byte memory with len1 <= len2 (prefix by construction) and arbitrary limits; D(raw1) ==> D(raw2) is discharged per detector (font/ttf: ==> Ttf or MsAccess, its hand-over). Loops over signature tables are unrolled exactly; helper functions enter through their contracts (pure functions as uninterpreted functions).", "5 C17",
         "tree-level conclusion (first accepting child at the larger limit is a non-text child) uses the first-match contract of match (C03) and that text is the last root child; detectors installed by Extend are arbitrary predicates and are outside"),
 "C18": ("proof", "tarChksum is proved equal to prefix-sum spec functions, tarParseOctal to the octal value of a six-digit field; Tar is sandwiched: accepted => recorded checksum equals the unsigned or signed sum; header in the writers' format => accepted. Corruption sensitivity is a lemma proved from two induction lemmas (point update, difference multiple of 256).", "5 C18",
         "ustarHeader is a trusted format predicate (what archive/tar, GNU tar, bsdtar emit); names ending a path component 'gpkg-1' are excluded from it, as the implementation deliberately rejects Gentoo gpkg"),
 "C12": ("other", "The in-repository glue is proved under documented dependency contracts: a byte-order mark takes precedence over any HTML meta declaration (FromHTML), and for a document with an XML declaration fromXML reaches the label extraction whatever encoding is declared (RawToken's documented behaviour with and without CharsetReader).", "5 C12",
         "tokenizer conformance (quoting styles, attribute order, letter case, prologues with fake metas) is behaviour of golang.org/x/net/html and encoding/xml and is not decided here; RawToken's contract is written from its documentation"),
 "C19": ("proof", "Converse direction on the real zipContains: a positive verdict implies the marker is the leading part of the name field (offset 30) of the first entry or of a PK\\3\\4 local file header at a computed offset (ghost witness), and with the OOXML check the first name is the marker or one of the five bookkeeping prefixes; readBuf.advance is proved exact; every zip-based type has application/zip as parent (init facts).", "5 C19",
         "the forward direction (standard writer layout => marker found among the first six entries) is NOT discharged: the layout lemma did not go through the solvers in the time available (see DESIGN.md, C19); design-phase execution showed the walk skips an entry starting < 56 bytes after the previous header"),
}
na_reason = {}
def main():
    checks = []
    for pid, (cat, text, ref, note) in claimed.items():
        checks.append({"property_id": pid, "quick_cmd": f"/verif/bin/govc check {pid} -tier quick", "thorough_cmd": f"/verif/bin/govc check {pid} -tier thorough",
          "evidence_file": f"/verif/evidence/{pid}.json", "replay_cmd_template": "/verif/bin/govc replay {path}", "engine": "govc",
          "level_claimed": {"category": cat, "text": text, "design_ref": "DESIGN.md §" + ref}, "level_note": note, "technique": TECH})
    commits = [l.split()[0] for l in subprocess.check_output(['git','-C','/repo','log','--format=%h %s']).decode().splitlines() if ' verif:' in ' ' + l]
    m = {"version": 1,
      "setup_cmd": "cd /verif/govc && GOFLAGS=-mod=mod GOPROXY=off GOSUMDB=off GOTOOLCHAIN=local go build -o /verif/bin/govc .",
      "hooks": {"guard": "verif", "enable": "govc loads /repo with build tag `verif`; the hooks are comment-only contract files contracts_verif.go (one per package)",
                "baseline_off_cmd": "cd /repo && GOFLAGS=-mod=mod GOPROXY=off GOSUMDB=off go test -vet=off -count=1 ./...", "source_commits": commits, "add_only": True},
      "engines": [{"name": "govc", "path": "/verif/govc", "serves_properties": list(claimed), "kind_free_text": "VC generator over go/ssa (NaiveForm) with contracts in //@ comment files, obligations discharged by z3 4.8.12 / z3 5.1.0 / cvc5"}],
      "checks": checks,
      "notes": "contracts live in comment-only files contracts_verif.go behind build tag verif; govc reads them from /repo's working tree on every run; known findings: /verif/known_findings.json",
      "not_applicable": [{"property_id": p, "reason": na_reason.get(p, "check not yet registered (engine under construction in this session)")} for p in ids if p not in claimed]}
    json.dump(m, open('/verif/MANIFEST.json', 'w'), indent=1)
    try:
        import jsonschema
        jsonschema.validate(m, json.load(open('/root/.vp/MANIFEST.schema.json')))
        for pid in claimed:
            f = f'/verif/evidence/{pid}.json'
            if os.path.exists(f):
                jsonschema.validate(json.load(open(f)), json.load(open('/root/.vp/EVIDENCE.schema.json')))
            else:
                print('missing evidence', pid)
        print('manifest valid:', len(checks), 'checks')
    except ImportError:
        print('jsonschema not available; not validated')
main()
