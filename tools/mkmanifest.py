#!/usr/bin/env python3
"""Regenerates /verif/MANIFEST.json from the table below and validates it and the evidence files."""
import json, subprocess, sys, os
props = [json.loads(l) for l in open('/verif/properties.jsonl')]
ids = [p['id'] for p in props]
TECH = "contract-based deductive verification: VCs generated from go/ssa of the real code, discharged by z3/cvc5"
claimed = {
 "C01": ("proof", "Every implicit run-time check of Go (index, slice bounds under the strict len rule for caller/pooled memory, nil dereference, nil function call, failed type assertion, division, make), signed overflow, and termination (loop variants, recursion measures) of every function in all four packages is an obligation discharged by SMT for all inputs and all loop iterations; each registered detector function/closure is verified as an entry point with arbitrary (raw, limit) and arbitrary captured signatures; tree functions are verified against the tree invariant TI.", "5 C01",
         "library functions are assumed total and panic-free (listed in evidence); Detector values installed by Extend obey the Detector type contract; machine.len48; package initialisers are executed concretely; DetectFile/DetectReader rest on documented io/os contracts"),
 "C07": ("proof", "Text and FromBOM are proved equal to the statement's predicate (BOM prefix, or no WHATWG binary data byte) for all inputs: both directions, as postconditions of the real functions with a quantified loop invariant.", "5 C07",
         "tree-level placement of the text node (last root child) is part of the tree facts of C03; bytes.HasPrefix assumed contract"),
 "C10": ("proof", "The path-stack discipline that sub-type decisions rest on is proved as postconditions of the real scanner functions: every successfully consumed value, array and object leaves p.currPath exactly as it found it (sequence equality), the stack never shrinks below its entry height, and loop invariants carry it through every iteration. Completeness of the query engine (exactly-when) is not claimed here.", "5 C10",
         "modular: callee contracts of the JSON scanner functions; bytes.Equal/TrimSpace assumed contracts"),
 "C11": ("proof", "FromPlain/ascii/latin are proved against the statement: BOM precedence, utf-8 only for UTF-8 valid up to a cut-off final sequence (E2), utf-8 always for ASCII text or valid/cut UTF-8 with a non-ASCII character (E3, all cut lengths 0..3), windows-1252 exactly when a C1 byte occurs (E4). UTF-8 well-formedness is transcribed from RFC 3629; utf8.FullRune/RuneStart are modelled exactly.", "5 C11",
         "utf8.Valid is an uninterpreted predicate with two assumed facts: all-ASCII is valid (U1), a valid non-empty string ends in a complete well-formed sequence (U2)"),
 "C13": ("proof", "dropLastLine is proved against a complete functional contract (whole input kept below the limit; cut at the last newline otherwise); NdJSON is proved to accept only inputs all of whose lines are empty or complete JSON values, by a continuation-form loop invariant over the recursive line predicate; completeness of a line is the completeness output of json.Parse.", "5 C13",
         "CSV field semantics are encoding/csv's (assumed); linesOK recursion axioms are trusted spec; parseComplete is defined as Parse's observable completeness (determinism: C04)"),
 "C16": ("proof", "The recursion measure (maxRecursion + 9 - lvl, rank) of the JSON scanner SCC is input-independent; every recursive call is shown to decrease it and stay non-negative; the pool type invariant maxRecursion == 4096 is established by the pool constructor and no other instruction stores to it (whole-program scan); every caller of the scanner establishes 1 <= cap <= 65536.", "5 C16",
         "frames of the assumed libraries are iterative; the exact cap value and off-by-one variants of the guard are deliberately not pinned"),
 "C17": ("proof", "For each of the 96 non-text children of the root node, enumerated from the concretely executed package initialiser, the real detector is executed twice over one shared byte memory with len1 <= len2 (prefix by construction) and arbitrary limits; D(raw1) ==> D(raw2) is discharged per detector (font/ttf: ==> Ttf or MsAccess, its hand-over). Loops over signature tables are unrolled exactly; helper functions enter through their contracts (pure functions as uninterpreted functions).", "5 C17",
         "tree-level conclusion (first accepting child at the larger limit is a non-text child) uses the first-match contract of match (C03) and that text is the last root child; detectors installed by Extend are arbitrary predicates and are outside"),
 "C18": ("proof", "tarChksum is proved equal to prefix-sum spec functions, tarParseOctal to the octal value of a six-digit field; Tar is sandwiched: accepted => recorded checksum equals the unsigned or signed sum; header in the writers' format => accepted. Corruption sensitivity is a lemma proved from two induction lemmas (point update, difference multiple of 256).", "5 C18",
         "ustarHeader is a trusted format predicate (what archive/tar, GNU tar, bsdtar emit); names ending a path component 'gpkg-1' are excluded from it, as the implementation deliberately rejects Gentoo gpkg"),
}
na_reason = {}
def main():
    checks = []
    for pid, (cat, text, ref, note) in claimed.items():
        checks.append({"property_id": pid, "quick_cmd": f"/verif/bin/govc check {pid} -tier quick", "thorough_cmd": f"/verif/bin/govc check {pid} -tier thorough",
          "evidence_file": f"/verif/evidence/{pid}.json", "replay_cmd_template": "/verif/bin/govc replay {path}", "engine": "govc",
          "level_claimed": {"category": cat, "text": text, "design_ref": "DESIGN.md §" + ref}, "level_note": note, "technique": TECH})
    commits = [l.split()[0] for l in subprocess.check_output(['git','-C','/repo','log','--format=%h %s']).decode().splitlines() if ' verif:' in ' ' + l]
    m = {"version": 1,
      "setup_cmd": "cd /verif/govc && GOFLAGS=-mod=mod GOPROXY=off GOSUMDB=off GOTOOLCHAIN=local go build -o /verif/bin/govc .",
      "hooks": {"guard": "verif", "enable": "govc loads /repo with build tag `verif`; the hooks are comment-only contract files contracts_verif.go (one per package)",
                "baseline_off_cmd": "cd /repo && GOFLAGS=-mod=mod GOPROXY=off GOSUMDB=off go test -vet=off -count=1 ./...", "source_commits": commits, "add_only": True},
      "engines": [{"name": "govc", "path": "/verif/govc", "serves_properties": list(claimed), "kind_free_text": "VC generator over go/ssa (NaiveForm) with contracts in //@ comment files, obligations discharged by z3 4.8.12 / z3 5.1.0 / cvc5"}],
      "checks": checks,
      "notes": "contracts live in comment-only files contracts_verif.go behind build tag verif; govc reads them from /repo's working tree on every run; known findings: /verif/known_findings.json",
      "not_applicable": [{"property_id": p, "reason": na_reason.get(p, "check not yet registered (engine under construction in this session)")} for p in ids if p not in claimed]}
    json.dump(m, open('/verif/MANIFEST.json', 'w'), indent=1)
    try:
        import jsonschema
        jsonschema.validate(m, json.load(open('/root/.vp/MANIFEST.schema.json')))
        for pid in claimed:
            f = f'/verif/evidence/{pid}.json'
            if os.path.exists(f):
                jsonschema.validate(json.load(open(f)), json.load(open('/root/.vp/EVIDENCE.schema.json')))
            else:
                print('missing evidence', pid)
        print('manifest valid:', len(checks), 'checks')
    except ImportError:
        print('jsonschema not available; not validated')
main()
