#!/usr/bin/env python3
"""mk_appendix_c.py: regenerate Appendix C of DESIGN.md from /verif/seeded/*/meta.json and
/verif/harmless/results.json (written by hand from tools/seed_matrix.py runs on the harmless edits)."""
import json, glob, os
rows = []
for d in sorted(glob.glob('/verif/seeded/C*-*')):
    m = json.load(open(d + '/meta.json'))
    own = m.get('caught_by', {}).get(m['property'], [])
    first = own[0] if own else ''
    desc = m['description'].split('. ')[0][:140].replace('|', '/')
    rows.append((m['id'], m['property'], 'yes' if own else 'NO', first.replace('_', ' ')[:80], desc))
n = len(rows); caught = sum(1 for r in rows if r[2] == 'yes')
missed = [r[0] for r in rows if r[2] != 'yes']
harm = json.load(open('/verif/harmless/results.json')) if os.path.exists('/verif/harmless/results.json') else {}
hn = len(harm); hclean = sum(1 for v in harm.values() if not v)
out = '''## Appendix C — seeded changes and which checks catch them
Five rounds of independent sub-agents, each given only the text of one property
and a scratch worktree (second round: with the contract files removed from the
worktree; the others: as the repository is), produced %d changes that
compile, pass the whole pinned suite and break the property only for specific
inputs, limits, sequences or interleavings. Every one was confirmed by me on a
scratch worktree (`tools/verify_seed.py`: suite passes with the change,
demonstration fails with it and passes without). They are kept in
`/verif/seeded/<id>/` (`patch.diff`, the demonstration test, `meta.json` with
what the change needs, what its author ran, what I ran and the obligations that
report it). `tools/seed_matrix.py <seed> Cxx…` re-runs checks against one of them
in a scratch worktree (GOVC_REPO/GOVC_OUT), never in /repo.

**Result with the committed machinery: %d of %d are reported by the check of
their own property; not caught by any check: %s** (all four are HTML `<meta>`
attribute handling inside the `x/net/html` token loop — not applicable, §5 C12).
Most reports end in `no-failing-input-found` (the failed clause is quantified, or
about a loop head or call site); run-time checks, `frame.input`, Lookup
completeness, BOM clauses, C17 and the bounded zip instances come with an input
replayed on the real code.

What had to be strengthened because a seeded change got through (every item
is described where it lives): the format clause of `clone` (C02-a, C15-a);
`sv` cut point (C13-a); reset precondition and append-into-input (C04-a/b);
embedded structs in the heap model (C16-b); ghost nesting depth (C08-b); query
engine contracts (C10-a/b); grammar G (C09-a); **assert-then-assume taint and
path killers** (C03-d, C16-d: a failed assertion in new code made later claims
vacuous); scans emitting their summary obligation and the "created only by the
pool constructor" scan (C16-a/b/c); labels/attribution so that the property
concerned reports (C03-b, C04-c/d, C06-c/d, C07-f, C08-e, C13-b/e, C14-b, C15-a);
one atomic sample per detection (C06-c); `DetectFile` contract (C05-d); Lookup
completeness (C14-d); zip marker contracts, e5/e6 instances, mimetype-entry
detectors on the initialiser (C19-b/c/d/f); XML label model (C12-b/d);
`frame.input` and `lock*` claimed in new code (C04-b, C06-f); map-iteration scan
(C04-f); spec-level first match in the C10 ghosts (C10-f); `consumeConst`
inspected-byte count (C09-e); a time budget per function (C19-e made the engine
run for 20 minutes); `#frame[k]` claimed wherever the store sits and attributed
to the properties whose modular proofs rest on the callee's frame (C10-d);
pool obligations under C01 (C01-h); `consumeString` inspected-byte count and the
exact truncated-mode decision over `insp(raw)` (C09-h, C08-h); DetectReader asks
for exactly `limit` bytes (C08-g); the csv.Reader configuration scan (C13-h);
the strict slice rule as a kind of its own, claimed in new code (C04-i: a recycled
path-stack slot still pointing into an earlier input).

| seed | property | own check reports it | first obligation reported | change (first sentence of its author's description) |
|---|---|---|---|---|
''' % (n, caught, n, ', '.join(missed) or 'none')
for r in rows:
    out += '| %s | %s | %s | %s | %s |\n' % r
out += '''
### Harmless edits (false-alarm corpus)
Two rounds of sub-agents produced %d behaviour-preserving refactorings
(`/verif/harmless/<id>/`): renaming of locals, parameters and named results;
helper extraction (statements and whole loops); switch ↔ if chain; case
reordering; literal → named constant; range loop ↔ index loop; hoisting a
loop-invariant expression; local variable for a repeated sub-expression;
nested ifs for a compound condition; a loop replaced by a standard-library call;
a new exported wrapper. All the checks that touch the edited package were run on
each (`/verif/harmless/results.json`). Alarms in the first runs were weaknesses
of the machinery and were removed: auto-unrolling of loops over small concrete
tables also inside extracted helpers; `rangeindex` alias and inferred
bounds/variant for a range loop turned into an index loop; map-valued results
fork instead of merging; new unexported functions are not entry points; proofs
tainted by a failed assertion are first re-tried without it; annotations whose
loop moved into a helper are offered to the helper's loops as candidates;
loop ordinals are re-aligned when a loop disappears or appears; models for
`bytes.TrimLeft` and `slices.Contains`.

**Final: %d of %d raise no alarm.** Those that still do:
%s
Both kinds are limits of contracts kept beside the code, not bugs to fix: (1) a
verified loop replaced by a library call (`bytes.TrimLeft`) turns "the loop
invariant carries `wsLen`" into "the library's first-non-space index equals the
recursive `wsLen`", an induction the solver does not do unprompted (a lemma
would have to be added); (2) a loop whose invariant is stated with a recursive
spec function over the *caller's* variables (`strLen(b) == plus(n, hexLen(b[n:],
j))`) is moved into a helper with its own `b` and `n`: the annotation has to be
rewritten for the helper. In both cases the check reports that the function's
claims are no longer discharged (`no-failing-input-found`), which is what a
maintainer making the edit has to repair in the contract file.
''' % (hn, hclean, hn, ''.join('- `%s`: %s\n' % (k, '; '.join(v)) for k, v in sorted(harm.items()) if v) or '- none\n')
s = open('/verif/DESIGN.md').read()
i = s.index('## Appendix C')
open('/verif/DESIGN.md', 'w').write(s[:i] + out)
print(n, caught, missed, hn, hclean)
