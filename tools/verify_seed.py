#!/usr/bin/env python3
"""verify_seed.py <seed-dir> : independently confirm a seeded change on a scratch worktree of /repo HEAD.
Checks: patch applies; repository suite passes with the change; demo fails with the change; demo passes
without it. Prints a JSON record. The scratch worktree is removed afterwards."""
import json, os, subprocess, sys, shutil, tempfile
ENV = dict(os.environ, GOFLAGS='-mod=mod', GOPROXY='off', GOSUMDB='off', GOTOOLCHAIN='local')
def run(cmd, cwd, timeout=900):
    p = subprocess.run(cmd, cwd=cwd, shell=True, env=ENV, stdout=subprocess.PIPE, stderr=subprocess.STDOUT, timeout=timeout)
    return p.returncode, p.stdout.decode(errors='replace')
def main():
    seed = sys.argv[1].rstrip('/')
    meta = json.load(open(os.path.join(seed, 'meta.json')))
    wt = tempfile.mkdtemp(prefix='sv-', dir='/tmp')
    os.rmdir(wt)
    rec = {'seed': os.path.basename(seed), 'property': meta.get('property')}
    try:
        rc, out = run(f'git -C /repo worktree add -q --detach {wt} HEAD', '/repo')
        assert rc == 0, out
        patch = os.path.join(seed, 'patch.diff')
        rc, out = run(f"git apply --exclude='*contracts_verif.go' {patch}", wt)
        how = 'apply'
        if rc != 0:
            rc, out = run(f"git apply --3way --exclude='*contracts_verif.go' {patch}", wt)
            how = '3way'
        rec['applies'] = (rc == 0); rec['apply_mode'] = how
        if rc != 0:
            rec['error'] = out[-500:]
            return rec
        run('git reset -q', wt)
        rc, out = run('go build ./... && go test -vet=off -count=1 ./...', wt)
        rec['suite_passes_with_change'] = (rc == 0)
        if rc != 0: rec['suite_output'] = out[-800:]
        demo_src = None
        for f in os.listdir(seed):
            if f.endswith('_test.go'): demo_src = os.path.join(seed, f)
        demo_path = meta.get('demo_path', 'zz_seed_test.go')
        dst = os.path.join(wt, demo_path)
        shutil.copy(demo_src, dst)
        demo_run = meta.get('demo_run', 'go test -vet=off -count=1 -run Seed .')
        if 'timeout' not in demo_run: demo_run = demo_run.replace('go test', 'go test -timeout 300s', 1)
        rc, out = run(demo_run, wt)
        rec['demo_fails_with_change'] = (rc != 0)
        rec['demo_output_with_change'] = out[-600:]
        # undo the change, keep the demo
        run('git checkout -q -- . ', wt)
        rc2, out2 = run(demo_run, wt)
        rec['demo_passes_without_change'] = (rc2 == 0)
        if rc2 != 0: rec['demo_output_without_change'] = out2[-600:]
        rec['demo_run'] = demo_run
        rec['confirmed'] = bool(rec['suite_passes_with_change'] and rec['demo_fails_with_change'] and rec['demo_passes_without_change'])
        return rec
    finally:
        subprocess.run(f'git -C /repo worktree remove --force {wt}', shell=True, stdout=subprocess.DEVNULL, stderr=subprocess.DEVNULL)
        shutil.rmtree(wt, ignore_errors=True)
        subprocess.run('git -C /repo worktree prune', shell=True)
if __name__ == '__main__':
    print(json.dumps(main(), indent=1))
