#!/usr/bin/env python3
"""seed_matrix.py <seed-dir> [Cxx ...]: run checks against a seeded change in a scratch worktree
(GOVC_REPO), without touching /repo or /verif/evidence. Prints JSON {check: result}."""
import json, os, subprocess, sys, shutil, tempfile, re
ENV = dict(os.environ, GOFLAGS='-mod=mod', GOPROXY='off', GOSUMDB='off', GOTOOLCHAIN='local')
ALL = ['C%02d' % i for i in range(1, 20)]
def main():
    seed = sys.argv[1].rstrip('/')
    checks = sys.argv[2:] or ALL
    wt = tempfile.mkdtemp(prefix='sm-', dir='/tmp'); os.rmdir(wt)
    out = tempfile.mkdtemp(prefix='smo-', dir='/tmp')
    res = {}
    try:
        subprocess.run(f'git -C /repo worktree add -q --detach {wt} HEAD', shell=True, check=True)
        p = os.path.join(seed, 'patch.diff')
        rc = subprocess.run(f"git apply --exclude='*contracts_verif.go' {p}", shell=True, cwd=wt).returncode
        if rc != 0:
            rc = subprocess.run(f"git apply --3way --exclude='*contracts_verif.go' {p}", shell=True, cwd=wt, stdout=subprocess.DEVNULL, stderr=subprocess.DEVNULL).returncode
        if rc != 0:
            return {'error': 'patch does not apply'}
        env = dict(ENV, GOVC_REPO=wt, GOVC_OUT=out, GOVC_QUIET='1')
        for c in checks:
            pr = subprocess.run(['/verif/bin/govc', 'check', c], env=env, cwd='/verif', stdout=subprocess.PIPE, stderr=subprocess.STDOUT, timeout=3600)
            txt = pr.stdout.decode(errors='replace')
            viol = re.findall(r'VIOLATION property=\S+ replay=\S+/([^/\s]+)\.json( no-failing-input-found)?', txt)
            res[c] = {'exit': pr.returncode, 'violations': [v[0] + (' (no input)' if v[1] else ' (replayed)') for v in viol],
                      'broken': re.findall(r'BROKEN: (.*)', txt)[:3]}
        return res
    finally:
        subprocess.run(f'git -C /repo worktree remove --force {wt}', shell=True, stdout=subprocess.DEVNULL, stderr=subprocess.DEVNULL)
        shutil.rmtree(wt, ignore_errors=True); shutil.rmtree(out, ignore_errors=True)
        subprocess.run('git -C /repo worktree prune', shell=True)
if __name__ == '__main__':
    print(json.dumps(main(), indent=1))
