#!/bin/bash
# usage: try_seed.sh <seed dir with patch.diff> <property id>...
# applies the seeded change to /repo, runs the listed checks, and always undoes the change.
set -u
seed=$1; shift
cd /repo || exit 2
if ! git diff --quiet; then echo "repo has uncommitted changes"; exit 2; fi
# contract files are maintained by the verifier, not by the seeded change
git apply --exclude='*contracts_verif.go' "$seed/patch.diff" 2>/dev/null || git apply --3way --exclude='*contracts_verif.go' "$seed/patch.diff" >/dev/null 2>&1 || { echo "PATCH DOES NOT APPLY"; git reset -q --hard HEAD; exit 3; }
git reset -q
rc=0
for p in "$@"; do
  out=$(cd /verif && bin/govc check "$p" 2>&1)
  echo "$out" | grep -E 'VIOLATION|KNOWN-FINDING|BROKEN|govc check|obligation ' | head -20
done
git reset -q --hard HEAD; git clean -fdq -- . 2>/dev/null
exit $rc
